#!/usr/bin/env python3
"""Regenerates /verif/MANIFEST.json from the table below (one entry per claimed property)."""
import json
import os
import subprocess

HERE = os.path.dirname(os.path.dirname(os.path.abspath(__file__)))

CHECKS = {
    'C01': dict(
        technique='reference-model monitor over the public query API + SQL trace/authorizer monitors + SQLite structural audit, on seeded generated documents',
        text='Runtime monitoring of real executions: every generated WN-LMF document (all versions, extensions, hostile strings, each optional feature toggled) is added with the real wn.add and the whole public query API is walked and compared, field by field, with an independent reference model of what the document says; the SQLite trace checks the one-transaction bracket, the authorizer records which tables each case reached, a structural audit runs after every add. Held on K generated documents, nothing is proved.',
        note='Trusts sqlite3/pyexpat, the harness writer (cross-checked against wn.lmf.load in C02) and the reference model (vf/model/db.py); ids unique within a lexicon family; tags/pronunciations on forms an extension newly adds to an external entry are not generated.',
        ref='3/C01'),
    'C02': dict(
        technique='round-trip monitor: independent writer -> real load -> real dump/load per LMF version, compared with the document model and its per-version projection; byte fixed point',
        text='Runtime monitoring: each generated file (harness writer, varied surface form) is loaded by the real reader and compared with the document model that was written; the loaded resource is then dumped and re-loaded by the real code in every admissible LMF version and compared with the version projection, and dump(load(.)) is checked to be a byte fixed point. Held on K generated resources x versions; no proof.',
        note='Normal-form equivalences of DESIGN section 8; entry-level frames count as the 1.0 encoding, lexicon-level frames + subcat as the 1.1+ encoding (the quantifier of the property).',
        ref='3/C02'),
    'C03': dict(
        technique='differential monitor: export -> load vs projected document model; re-import into an empty database vs the reference model and vs the first database (real-vs-real observation)',
        text='Runtime monitoring: generated non-extension lexicons are added, exported by the real wn.export in each of 1.0-1.3, every export is loaded (compared with the projection of the added documents, sense-frame links as a relation) and re-added to an empty database whose full public-API observation is compared with the model and with the first database; clashing identifiers must be refused. Held on K databases x 4 versions.',
        note='What the database legitimately forgets is not demanded (frames without senses, frame encoding, ILIDefinition of non-proposed ILIs).',
        ref='3/C03'),
    'C20': dict(
        technique='single-fault XML mutation workload against real load()/add() with table-dump and SQL-trace monitors; scan_lexicons/is_lmf compared with load() on varied surface forms',
        text='Runtime monitoring: every generated valid document is checked in three surface forms and as dump() output (is_lmf, scan_lexicons == load, add succeeds); then each applicable single-fault mutant of the listed classes is given to the real load() and add() on a non-empty database: both must raise, the logical dump of all tables must be unchanged; header variants compare is_lmf() with load(). Held on K mutants; acceptance is the only alarm (which exception is raised is not constrained).',
        note='Fault classes are exactly those of the statement; misplaced-but-known elements are not generated.  Known finding: add() does not parse a file whose lexicons are all skipped.',
        ref='3/C20'),
    'C06': dict(
        level='fault_enumeration',
        technique='fault enumeration over k in five classes (progress-handler callbacks, SQLite authorizer denials, sys.monitoring line failpoints in wn/_add.py, mid-DELETE VM aborts, corrupted references) with a byte-level table-dump oracle and an online SQL transaction-bracket checker',
        text='Fault enumeration on real executions: for generated resources on a non-empty database every fault point of a class is first counted in a dry run on a copy, then injected one at a time (quick: sampled k incl. first/last and one per distinct source line; thorough: every k) into wn.add of a resource, wn.add of an ILI index and wn.remove of a base with an extension chain; a removal issued directly after a failed add is audited too; one case per run adds a generated lexicon of >= 1100 entries and synsets (every bulk table crosses the 1000-row batch size of the library) in each corrupted variant and requires the dump to be unchanged and the valid add to store every word afterwards; after each fault the logical dump of all 24 tables (rowids included) must equal the dump before the call, the SQL trace must show no commit inside the failed call, the pooled connection must still serve reads, and finally the real operation must give the same database as without the faults. Counts of injected/interrupted/survived faults per class are in the evidence.',
        note='Unit of atomicity = one resource (add) / one lexicon with its extensions (remove). A fault firing after the operation committed is not an interrupted operation (only the completed state is then also admissible). The harness drops the exception before probing usability (a traceback kept alive keeps the library cursor alive).',
        ref='3/C06'),
    'C07': dict(
        technique='differential monitor between supply routes (table dumps with rowids, per-lexicon observations) + sys.addaudithook file-system monitor + ResourceWarning/tracemalloc leak monitor under -X dev',
        text='Runtime monitoring: every generated resource is supplied through 11-14 routes (xml, odd file name, gz, xz, package directory with extra files, collection, tar/tar.gz/tar.xz of file, package and collection, in-memory), each on an empty database; dumps must be identical between order-preserving routes, observations identical for all, one route is also compared with the reference model; re-adding (same and another route) must change nothing, an extension without base must store nothing; audit hooks check that no input is opened for writing or modified and no temporary file survives.',
        note='Collections hold mutually independent packages; their iteration order is not controlled (per-lexicon comparison only).',
        ref='3/C07'),
    'C04': dict(
        technique='membership invariant on every entity object the observation walk touches + differential non-interference monitor between real databases (insiders / + outsiders / outsiders removed / outsiders installed first), form and identifier look-ups included, classified by the reference model',
        text='Runtime monitoring: for 15 selection/expand settings over a universe of related lexicons with colliding identifiers, the full public-API observation of Wordnet(S, expand=E) is taken in a database holding only S, its expand set and needed bases, again after every other lexicon (other versions, unselected extensions of members of S, unrelated lexicons sharing ids/forms/ILIs) was added, and again after they were removed, and in a fourth database where the outsiders were installed before and between the insiders; the observations (enumeration, navigation, look-ups by identifier, ILI and written form) must be identical and every returned entity must belong to S; the unrestricted default mode is compared with the family-scoped view of the model on the full database. Held on K universes.',
        note='Which extensions/dependencies of a lexicon are installed is dependency bookkeeping (C05), masked here. Known finding: tags/pronunciations have no owner column.',
        ref='3/C04'),
    'C05': dict(
        technique='history monitor: reference model of the installed set + structural audit of the SQLite file after every operation + observation vs model + second real execution (fresh database) at the end',
        text='Runtime monitoring over random add/remove/ILI histories (with adds that fail half-way, reconnects and unobserved steps) on a universe of related lexicons (two versions of a base, extension chain, dependents with installed/missing providers, look-alike specifiers b_:1 / UN:1 / %:* that match a required provider only as a pattern): after every operation the installed set, dependency links and a structural audit (foreign keys, ownership, dangling references, link columns) are checked, observations of every family are compared with the model every few operations, every removed lexicon is added again, and the final database is compared with a fresh one built from just the installed lexicons. Held on K histories.',
        note='ILI inventory and cross-lexicon order excluded as the statement says. Known finding: extension tags/pronunciations survive removal.',
        ref='3/C05'),
    'C08': dict(
        technique='reference-model monitor of specifier selection (wn.lexicons, wn.Wordnet, wn.remove on copies) over generated databases and enumerated specifier strings',
        text='Runtime monitoring: databases with several ids (prefixes of each other), several versions per id added in random order, two languages; every specifier of up to 3 items built from ids, versions, stars and globs x lang is resolved by the real code and compared, as a set, with the model written from docs/guides/lexicons.rst; error/empty behaviour for no match. Held on K (database, specifier, lang) triples.',
        note="'?' / '[..]' globs not generated; a list given to remove() may be read as a snapshot or item by item.",
        ref='3/C08'),
    'C09': dict(
        technique='reference-model monitor of words()/senses()/synsets() over generated lexicons x queries x the Wordnet configurations (normalizer default/none/custom x search_all_forms x lemmatizer none/table-driven/Morphy/initialised Morphy)',
        text='Runtime monitoring: every (query, pos) is run through the real Wordnet in each configuration (normalizer on/off, search_all_forms on/off, no/custom/Morphy/initialized-Morphy lemmatizer) and in three scopes (lexicon alone, lexicon + extension adding forms and words, base with the extension installed but unselected), with the default, no and a caller-supplied normalizer and lemmatizers that answer with several parts of speech or with no form at all; result sets and duplicate-freeness are compared with the documented two-pass search procedure. Held on K comparisons.',
        note='Scopes never contain an unselected extension (C04 owns that).',
        ref='3/C09'),
    'C10': dict(
        technique='reference-model monitor of navigation + identity-filing monitor (==/hash/set collapse of objects denoting one stored entity) + translate() model and symmetry',
        text='Runtime monitoring: universes with three versions of one lexicon id, extensions attaching senses to base entries and synsets, unrelated lexicons with identical identifiers; in default, single, multi-version, colliding, family, extension-only and lang selections the observation is compared with the model, every object reached by any route is filed under its identity and checked for equality/hash consistency, and synset/sense/word translation is compared with the ILI model incl. symmetry. Held on K universes x selections.',
        note='wn.Error is accepted where the declared word/synset lies outside a restricted selection.',
        ref='3/C10'),
    'C11': dict(
        technique='reference-model monitor of relation queries with type-argument sets + closure/relation_paths vs reachability and simple-path enumeration + step monitor (get_related expansions) as bounded-progress termination check',
        text='Runtime monitoring on dense relation multigraphs (self-loops, cycles, parallel relations differing in type, dc:type or metadata, duplicates, made-up types) over base+extension families in four scopes: relations(), get_related(), get_related_synsets(), relation_map(), closure(), relation_paths() and the hypernyms()/.. shortcuts are compared with the model for six type-argument sets per entity; in every second family the base lexicon is walked that way before the other lexicons (with relation types it does not use) are added over the same connection; expansions per call are counted against a budget derived from the graph. Held on K families.',
        note='ILIs absent/disjoint so that expansion (C12) adds nothing.',
        ref='3/C11'),
    'C12': dict(
        technique='reference-model monitor of ILI expansion (borrowed relations, placeholders, own-before-borrowed order, relation_map keys) + constructor monitor (expanded_lexicons, missing-dependency warning) + hypernym_paths through placeholders',
        text='Runtime monitoring on triples of lexicons with partially overlapping ILIs under seven expand settings and declared/undeclared, installed/missing dependencies; observations, expand sets, warnings, hypernym paths and closures through chains of placeholder synsets, two installed versions of a declared provider, provider selected together with the dependent, and navigation from translate() results are compared with the model. Held on K triples x settings.',
        note='relation_map() is a dict: with many-to-many ILI matches one of the admissible values per key is accepted, the key set must be complete.',
        ref='3/C12'),
    'C13': dict(
        technique='exhaustive small-graph enumeration (all labelled digraphs on <=3 nodes; 4 nodes up to isomorphism) + random larger graphs (every second one also seen through an expand lexicon, placeholders mapped back by ILI) under a graph-theoretic reference (BFS/DFS) + step monitor + a Wordnet object kept across database changes',
        text='Runtime monitoring: the real wn.taxonomy functions and Synset shortcuts are run on every graph, node, ordered pair and simulate_root value and compared with a 60-line BFS/DFS reference; exhaustive: true refers to the enumerated spaces only (n<=3 labelled: 530 graphs; n=4 loop-free classes in quick, all 3044 classes in thorough).',
        note='lowest_common_hypernyms exact on DAGs, reading-independent consequences on cyclic graphs. Known finding: taxonomy_depth on some cyclic graphs.',
        ref='3/C13'),
    'C14': dict(
        technique='formula monitor for the six metrics over the C13 graphs with weights from the real ic.compute, arbitrary weights and web-scale near-tie weights; symmetry, bounds and error-behaviour monitors',
        text='Runtime monitoring: every ordered pair x simulate_root x metric is evaluated by the real code and compared with the documented formula computed from the graph-theoretic reference (any lowest common hypernym admissible where several exist); symmetry, ranges, self-similarity maxima and the documented errors are checked on all graphs incl. cyclic ones. Held on K graphs.',
        note='Lin = 2 IC(c0)/(IC(c1)+IC(c2)); under simulate_root k may or may not count the virtual root.',
        ref='3/C14'),
    'C15': dict(
        technique='conservation/counted-once/monotonicity monitor: real ic.compute vs exact rational arithmetic over ancestor sets; probability/IC range checks along real hypernym links; load() on generated weight files',
        text='Runtime monitoring: graphs incl. diamonds, deeper convergences and cycles, word inventories with ambiguous, multi-word and non-lemma-only words, corpora with unknown tokens, distribute_weight in {True, False}, smoothing in {1, 0.5, 0.001, 0}; totals and every synset weight are compared with exact fractions, then monotonicity, probability in (0,1] and information content >= 0. Held on K (graph, corpus, options) tuples.',
        note='Hypernymy inside one part of speech (a/s merged) as in the quantifier.',
        ref='3/C15'),
    'C16': dict(
        technique='differential process runs: the same database file given to subprocesses with different PYTHONHASHSEED; canonical transcripts of a full API battery compared byte-wise; in-process repetition; SQL trace for writes',
        text='Runtime monitoring: a battery covering every public query, navigation, taxonomy, similarity, IC, Morphy, validate, dump and export call (several thousand transcript lines per database) is executed in each of 4 (quick) / 12 (thorough) processes with different hash seeds on generated databases with planted ties (several lowest common hypernyms, placeholder synsets, expand pairs, multi-candidate lemmatization): twice in the same order and once with the calls on every entity reversed, processes alternating which order comes first; transcripts must be byte-identical across processes and repetitions and equal as multisets across orders, and the battery must not write. Held on K databases x seeds.',
        note='Sets are compared sorted (they carry no order); lists and mappings keep their order.',
        ref='3/C16'),
    'C17': dict(
        technique='reference-model monitor of Morphy: exact for the uninitialized mode (rules as data), must/may bounds for the initialized mode, union-over-pairs for Wordnet(lemmatizer=...)',
        text='Runtime monitoring: lexicons with inflection-like lemmas, irregular forms shared between words and parts of speech, a/s entries and bare-suffix lemmas; every query (stored forms, every rule suffix attached, bare suffixes, unrelated strings) x pos in {None,n,v,a,s,r,t,x} is given to both Morphy modes and to Wordnets using them (normalizer off). Held on K comparisons.',
        note='Rule table transcribed from the documentation as data.',
        ref='3/C17'),
    'C18': dict(
        technique='must/may reference monitor per check code over generated and corrupted lexicons x selections; never-raises, exact code set, add() rejection and CLI exit-status monitors',
        text='Runtime monitoring: valid and multiply corrupted lexicons (34 corruption kinds) are validated by the real code for every single code, E, W, subsets and the empty selection; each report must contain exactly the selected codes with documented messages and item keys within must <= reported <= must|may; E204/E401 lexicons must be refused by add_lexical_resource; python -m wn validate must exit 0 iff nothing is reported. Held on K (lexicon, selection) pairs.',
        note='Where duplicated identifiers make the entity ambiguous the must-set shrinks (appendix A of DESIGN.md).',
        ref='3/C18'),
    'C19': dict(
        technique='history monitor with reference model of the ILI table: table dump before/after (only ilis/ili_statuses may change, rowids stable), idempotence, order independence, full observation vs model',
        text='Runtime monitoring: random interleavings of lexicon adds and ILI-index adds (plain, package, gz; ILI/ili header, missing columns, CRLF, empty definitions, made-up statuses, unused ids, definitions with separator characters), a child process with an ASCII locale; after every operation the ilis table, the observation of every lexicon, wn.ilis(status=..) and wn.ili() are compared with the model; loading twice must change nothing; index-first and lexicons-first orders must agree. Held on K histories.',
        note='ILI metadata is outside the statement.',
        ref='3/C19'),
}

NOT_YET = 'check not built yet in this round (work in progress; see DESIGN.md section 3 for the design)'


def main():
    props = [json.loads(l) for l in open(os.path.join(HERE, 'properties.jsonl'))]
    fixes = subprocess.run(['git', '-C', '/repo', 'log', '--format=%h %s'], capture_output=True, text=True).stdout
    man = {
        'version': 1,
        'setup_cmd': './setup.sh',
        'hooks': {
            'guard': 'WN_VERIF',
            'enable': 'no source hooks: every monitor attaches from the harness (sqlite3 trace/authorizer/progress callbacks on the '
                      "library's own connection, sys.monitoring LINE failpoints, sys.addaudithook, icontract wrappers); ./check exports WN_VERIF=1 "
                      'and puts /repo (or $VERIF_REPO) first on PYTHONPATH so the working tree is what runs',
            'baseline_off_cmd': 'cd /repo && env -u WN_VERIF /venv/bin/python -m pytest -ra -q -p no:cacheprovider --timeout=900 --continue-on-collection-errors',
            'source_commits': [],
            'add_only': True,
        },
        'engines': [{'name': 'vf', 'path': 'vf/', 'serves_properties': sorted(CHECKS),
                     'kind_free_text': 'Python harness: seeded generators, independent WN-LMF writer, reference models, '
                                       'monitors (SQL trace, authorizer, audit hooks, failpoints, contracts), sharded runner'}],
        'checks': [],
        'not_applicable': [],
        'notes': 'All checks are runtime monitors over real executions of the working tree; verdicts are held-on-what-was-observed / '
                 'violated / inconclusive (exit 2).  Known findings: known_findings.json.  fix: commits in /repo: '
                 + '; '.join(l for l in fixes.splitlines() if ' fix:' in l),
    }
    for p in props:
        pid = p['id']
        if pid in CHECKS:
            c = CHECKS[pid]
            man['checks'].append({
                'property_id': pid,
                'quick_cmd': f'./check {pid} --tier quick',
                'thorough_cmd': f'./check {pid} --tier thorough',
                'evidence_file': f'evidence/{pid}.json',
                'replay_cmd_template': f'./check {pid} --replay {{path}}',
                'engine': 'vf',
                'level_claimed': {'category': c.get('level', 'exploration'), 'text': c['text'],
                                  'design_ref': 'DESIGN.md section ' + c['ref']},
                'level_note': c['note'],
                'technique': c['technique'],
            })
        else:
            man['not_applicable'].append({'property_id': pid, 'reason': NOT_YET})
    with open(os.path.join(HERE, 'MANIFEST.json'), 'w') as f:
        json.dump(man, f, indent=1)
        f.write('\n')


if __name__ == '__main__':
    main()
