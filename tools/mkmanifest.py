#!/usr/bin/env python3
"""Regenerates /verif/MANIFEST.json from the table below (one entry per claimed property)."""
import json
import os
import subprocess

HERE = os.path.dirname(os.path.dirname(os.path.abspath(__file__)))

CHECKS = {
    'C01': dict(
        technique='reference-model monitor over the public query API + SQL trace/authorizer monitors + SQLite structural audit, on seeded generated documents',
        text='Runtime monitoring of real executions: every generated WN-LMF document (all versions, extensions, hostile strings, each optional feature toggled) is added with the real wn.add and the whole public query API is walked and compared, field by field, with an independent reference model of what the document says; the SQLite trace checks the one-transaction bracket, the authorizer records which tables each case reached, a structural audit runs after every add. Held on K generated documents, nothing is proved.',
        note='Trusts sqlite3/pyexpat, the harness writer (cross-checked against wn.lmf.load in C02) and the reference model (vf/model/db.py); ids unique within a lexicon family; tags/pronunciations on forms an extension newly adds to an external entry are not generated.',
        ref='3/C01'),
    'C02': dict(
        technique='round-trip monitor: independent writer -> real load -> real dump/load per LMF version, compared with the document model and its per-version projection; byte fixed point',
        text='Runtime monitoring: each generated file (harness writer, varied surface form) is loaded by the real reader and compared with the document model that was written; the loaded resource is then dumped and re-loaded by the real code in every admissible LMF version and compared with the version projection, and dump(load(.)) is checked to be a byte fixed point. Held on K generated resources x versions; no proof.',
        note='Normal-form equivalences of DESIGN section 8; entry-level frames count as the 1.0 encoding, lexicon-level frames + subcat as the 1.1+ encoding (the quantifier of the property).',
        ref='3/C02'),
    'C03': dict(
        technique='differential monitor: export -> load vs projected document model; re-import into an empty database vs the reference model and vs the first database (real-vs-real observation)',
        text='Runtime monitoring: generated non-extension lexicons are added, exported by the real wn.export in each of 1.0-1.3, every export is loaded (compared with the projection of the added documents, sense-frame links as a relation) and re-added to an empty database whose full public-API observation is compared with the model and with the first database; clashing identifiers must be refused. Held on K databases x 4 versions.',
        note='What the database legitimately forgets is not demanded (frames without senses, frame encoding, ILIDefinition of non-proposed ILIs).',
        ref='3/C03'),
    'C20': dict(
        technique='single-fault XML mutation workload against real load()/add() with table-dump and SQL-trace monitors; scan_lexicons/is_lmf compared with load() on varied surface forms',
        text='Runtime monitoring: every generated valid document is checked in three surface forms and as dump() output (is_lmf, scan_lexicons == load, add succeeds); then each applicable single-fault mutant of the listed classes is given to the real load() and add() on a non-empty database: both must raise, the logical dump of all tables must be unchanged; header variants compare is_lmf() with load(). Held on K mutants; acceptance is the only alarm (which exception is raised is not constrained).',
        note='Fault classes are exactly those of the statement; misplaced-but-known elements are not generated.  Known finding: add() does not parse a file whose lexicons are all skipped.',
        ref='3/C20'),
    'C06': dict(
        level='fault_enumeration',
        technique='fault enumeration over k in five classes (progress-handler callbacks, SQLite authorizer denials, sys.monitoring line failpoints in wn/_add.py, mid-DELETE VM aborts, corrupted references) with a byte-level table-dump oracle and an online SQL transaction-bracket checker',
        text='Fault enumeration on real executions: for generated resources on a non-empty database every fault point of a class is first counted in a dry run on a copy, then injected one at a time (quick: sampled k incl. first/last and one per distinct source line; thorough: every k) into wn.add and wn.remove; after each fault the logical dump of all 24 tables (rowids included) must equal the dump before the call, the SQL trace must show no commit inside the failed call, the pooled connection must still serve reads, and finally the real operation must give the same database as without the faults. Counts of injected/interrupted/survived faults per class are in the evidence.',
        note='Unit of atomicity = one resource (add) / one lexicon with its extensions (remove). A fault firing after the operation committed is not an interrupted operation (only the completed state is then also admissible). The harness drops the exception before probing usability (a traceback kept alive keeps the library cursor alive).',
        ref='3/C06'),
    'C07': dict(
        technique='differential monitor between supply routes (table dumps with rowids, per-lexicon observations) + sys.addaudithook file-system monitor + ResourceWarning/tracemalloc leak monitor under -X dev',
        text='Runtime monitoring: every generated resource is supplied through 11-14 routes (xml, odd file name, gz, xz, package directory with extra files, collection, tar/tar.gz/tar.xz of file, package and collection, in-memory), each on an empty database; dumps must be identical between order-preserving routes, observations identical for all, one route is also compared with the reference model; re-adding (same and another route) must change nothing, an extension without base must store nothing; audit hooks check that no input is opened for writing or modified and no temporary file survives.',
        note='Collections hold mutually independent packages; their iteration order is not controlled (per-lexicon comparison only).',
        ref='3/C07'),
}

NOT_YET = 'check not built yet in this round (work in progress; see DESIGN.md section 3 for the design)'


def main():
    props = [json.loads(l) for l in open(os.path.join(HERE, 'properties.jsonl'))]
    fixes = subprocess.run(['git', '-C', '/repo', 'log', '--format=%h %s'], capture_output=True, text=True).stdout
    man = {
        'version': 1,
        'setup_cmd': './setup.sh',
        'hooks': {
            'guard': 'WN_VERIF',
            'enable': 'no source hooks: every monitor attaches from the harness (sqlite3 trace/authorizer/progress callbacks on the '
                      "library's own connection, sys.monitoring LINE failpoints, sys.addaudithook, icontract wrappers); ./check exports WN_VERIF=1 "
                      'and puts /repo (or $VERIF_REPO) first on PYTHONPATH so the working tree is what runs',
            'baseline_off_cmd': 'cd /repo && env -u WN_VERIF /venv/bin/python -m pytest -ra -q -p no:cacheprovider --timeout=900 --continue-on-collection-errors',
            'source_commits': [],
            'add_only': True,
        },
        'engines': [{'name': 'vf', 'path': 'vf/', 'serves_properties': sorted(CHECKS),
                     'kind_free_text': 'Python harness: seeded generators, independent WN-LMF writer, reference models, '
                                       'monitors (SQL trace, authorizer, audit hooks, failpoints, contracts), sharded runner'}],
        'checks': [],
        'not_applicable': [],
        'notes': 'All checks are runtime monitors over real executions of the working tree; verdicts are held-on-what-was-observed / '
                 'violated / inconclusive (exit 2).  Known findings: known_findings.json.  fix: commits in /repo: '
                 + '; '.join(l for l in fixes.splitlines() if ' fix:' in l),
    }
    for p in props:
        pid = p['id']
        if pid in CHECKS:
            c = CHECKS[pid]
            man['checks'].append({
                'property_id': pid,
                'quick_cmd': f'./check {pid} --tier quick',
                'thorough_cmd': f'./check {pid} --tier thorough',
                'evidence_file': f'evidence/{pid}.json',
                'replay_cmd_template': f'./check {pid} --replay {{path}}',
                'engine': 'vf',
                'level_claimed': {'category': c.get('level', 'exploration'), 'text': c['text'],
                                  'design_ref': 'DESIGN.md section ' + c['ref']},
                'level_note': c['note'],
                'technique': c['technique'],
            })
        else:
            man['not_applicable'].append({'property_id': pid, 'reason': NOT_YET})
    with open(os.path.join(HERE, 'MANIFEST.json'), 'w') as f:
        json.dump(man, f, indent=1)
        f.write('\n')


if __name__ == '__main__':
    main()
