#!/bin/sh
# run every check of one tier, print one line per property
tier=${1:-quick}
cd "$(dirname "$0")/.."
for i in 01 02 03 04 05 06 07 08 09 10 11 12 13 14 15 16 17 18 19 20; do
  s=$(date +%s)
  out=$(./check C$i --tier $tier 2>&1); rc=$?
  e=$(date +%s)
  echo "C$i rc=$rc $((e-s))s $(echo "$out" | grep -c '^VIOLATION') violations, $(echo "$out" | grep -c '^KNOWN-FINDING') known, $(echo "$out" | grep -c '^INCONCLUSIVE') inconclusive"
  echo "$out" | grep -E '^(VIOLATION|INCONCLUSIVE)' | cut -c1-300
done
