"""Compare what the real query API reports with what the reference model says it must report,
and classify a difference under a known mechanism when (and only when) switching on exactly that
mechanism in the model reproduces the real observation."""

import itertools
import re

from vf import wnio
from vf.diff import diff, fmt, jsonable
from vf.model.db import View
from vf.observe import observe

QUIRK_KEYS = {
    'tags-unowned': 'form-tags-unowned',
    'ext-forms': 'unselected-extension-forms',
    'nav-by-id': 'sense-nav-by-id',
}


def norm_path(p):
    p = re.sub(r'/[^/{}\[\]]*::[^/{}\[\]]*', '/K', p)
    p = re.sub(r'\[\d+\]', '[]', p)
    return p


def compare(rec, m, selection, default=False, expand=None, visit=None, relations=True, label='', quirks=QUIRK_KEYS):
    """True when the observation matches the model."""
    if default:
        selection = sorted(m.lex, key=lambda s: m.lex[s].order)
        model_expand = list(selection)
    elif expand is None:
        model_expand = wnio.default_expand(m, selection)
    else:
        model_expand = list(expand)
    w = wnio.wordnet(None if default else selection, None if default else expand)
    real = observe(w, rec, visit, relations)
    exp = View(m, selection, default, model_expand).observe(relations)
    rec.event('obs.compared')
    rec.event('obs.entities', len(real['words']) + len(real['senses']) + len(real['synsets']))
    d = diff(exp, real)
    if d is None:
        return True
    names = list(quirks)
    for n in range(1, len(names) + 1):
        for combo in itertools.combinations(names, n):
            e2 = View(m, selection, default, model_expand, quirks=combo).observe(relations)
            if diff(e2, real) is None:
                for q in combo:
                    if quirks[q] is None:
                        # a mechanism that another property owns (and reports): only counted here
                        rec.event('foreign-mechanism.' + q)
                        continue
                    rec.violation(quirks[q], f'{label} scope={"default" if default else selection}: {fmt(d, 300)}',
                                  {'path': d[0]})
                return False
    # not explained by any combination of known mechanisms: report what remains *after* allowing for all of them,
    # so that the witness points at the new difference and not at a known one that happens to come first
    if names:
        e_all = View(m, selection, default, model_expand, quirks=names).observe(relations)
        d_all = diff(e_all, real)
        if d_all is not None:
            d = d_all
    rec.violation('observation:' + norm_path(d[0]),
                  f'{label} scope={"default" if default else selection} expand={model_expand}: {fmt(d, 500)}',
                  {'path': d[0], 'expected': jsonable(d[1]), 'actual': jsonable(d[2])})
    return False


def canon_real(o):
    """Canonical form of a *real* observation for real-vs-real comparisons: lists whose order no statement
    fixes (relation targets, relation_map rows, frames, the ILI listing) are sorted."""
    import json
    for kind in ('senses', 'synsets'):
        for d in o[kind].values():
            if isinstance(d, dict):
                for f in ('related', 'related_synsets', 'frames'):
                    if f in d:
                        d[f] = sorted(d[f])
                if 'relations' in d:
                    d['relations'] = {k: sorted(v) for k, v in d['relations'].items()}
                if 'relmap' in d:
                    d['relmap'] = sorted(d['relmap'], key=lambda r: json.dumps(r, sort_keys=True, default=str))
    o['ilis'] = sorted(o['ilis'], key=lambda r: json.dumps(r, default=str))
    for d in o['lexicons'].values():
        for f in ('extensions', 'all_extensions'):
            if f in d:
                d[f] = sorted(d[f])
    return o


def strip_ghost_tags(o, m):
    """Remove from a real observation, once each, the tags/pronunciations that the model attributes to
    extensions removed earlier (they have no owner column and survive - known finding).  Returns the number removed."""
    t = m.tables()
    n = 0
    for ekey, e in t.entries.items():
        w = o['words'].get(ekey)
        if not isinstance(w, dict):
            continue
        for f in e['forms']:
            ghosts_t = [[tg, c] for o_, tg, c in f['tags'] if o_.startswith('~')]
            ghosts_p = [p for o_, p in f['prons'] if o_.startswith('~')]
            if not ghosts_t and not ghosts_p:
                continue
            for wf in w['forms']:
                if wf['form'] == f['form'] and wf['id'] == f['id'] and wf['script'] == f['script']:
                    for g in ghosts_t:
                        if g in wf['tags']:
                            wf['tags'].remove(g)
                            n += 1
                    for g in ghosts_p:
                        if g in wf['prons']:
                            wf['prons'].remove(g)
                            n += 1
                    break
    return n
