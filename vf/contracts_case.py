"""Extra workload shared by several drivers: the repository's own test-suite executed under the harness' runtime
contracts (vf.pytest_plugin).  Violations are attributed to the property whose contract fired."""

import json
import os
import subprocess
import sys

from vf import env


def run(rec, pid):
    out = env.mkdtemp('contracts') / 'contracts.json'
    e = dict(os.environ, VF_CONTRACT_OUT=str(out))
    p = subprocess.run([sys.executable, '-m', 'pytest', '-q', '-x', '-p', 'no:cacheprovider', '-p', 'vf.pytest_plugin',
                        str(env.REPO / 'tests')], env=e, cwd=str(env.REPO), capture_output=True, text=True, timeout=900)
    if not out.exists():
        rec.harness_errors.append('pytest under contracts produced no report: ' + (p.stdout + p.stderr)[-800:])
        return
    data = json.loads(out.read_text())
    for name, n in data['evals'].items():
        rec.event('contract.evals.' + name, n)
    rec.event('contract.pytest.exitstatus.%d' % data['exitstatus'])
    for prop, key, msg in data['violations']:
        if prop == pid:
            rec.violation(key, 'while the repository tests ran under contracts: ' + msg)
    rec.done(['pytest-under-contracts', pid], nontrivial=sum(data['evals'].values()) > 0,
             sample={'workload': 'repository tests under runtime contracts', 'evaluations': data['evals']})
