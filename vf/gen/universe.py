"""A small universe of related lexicons with deliberately overlapping identifiers, forms and ILIs."""

from vf.gen import doc


def make(r, hostile=0.2, size=4, ili='shared', versions=2, lmfver='1.1', relations=True):
    """Returns {name: lexicon doc}:
       a1, a2[, a3]  versions of lexicon id 'a' (same identifiers in each)
       xa            extension of a:1          xxa  extension of xa        ya  second extension of a:1
       b             unrelated lexicon (language fr) with the same identifiers and ILIs as 'a'
       c             lexicon that requires a:1 and b:1 (default expand set), sharing ILIs
       d             lexicon requiring a lexicon that is not installed (m:9)
    """
    p = doc.Profile(max_entries=size, max_synsets=size, ili=ili, idstyle='short', hostile=hostile, relations=relations,
                    ili_pool=[f'i{n}' for n in range(1, 7)])
    u = {}
    u['a1'] = doc.gen_lexicon(r, lmfver, 'a', '1', p, idprefix='', language='en')
    u['a2'] = doc.gen_lexicon(r, lmfver, 'a', '2', p, idprefix='', language='en')
    if versions > 2:
        u['a3'] = doc.gen_lexicon(r, lmfver, 'a', '3.0+x', p, idprefix='', language='en')
    u['xa'] = doc.gen_lexicon(r, lmfver, 'xa', '1', p, base=u['a1'], language='en')
    u['xxa'] = doc.gen_lexicon(r, lmfver, 'xxa', '1', p, base=u['xa'], language='en')
    u['ya'] = doc.gen_lexicon(r, lmfver, 'ya', '1', p, base=u['a1'], language='en')
    u['b'] = doc.gen_lexicon(r, lmfver, 'b', '1', p, idprefix='', language='fr')
    u['c'] = doc.gen_lexicon(r, lmfver, 'c', '1', p, idprefix='c-', language='ja', requires=[('a', '1'), ('b', '1')])
    u['d'] = doc.gen_lexicon(r, lmfver, 'd', '1', p, idprefix='d-', language='en', requires=[('m', '9')])
    return u


def spec(lx):
    return f"{lx['id']}:{lx['version']}"


ORDER = ['a1', 'a2', 'a3', 'b', 'xa', 'ya', 'xxa', 'c', 'd']


def install(names, u, work, m=None, rng_seed=0):
    """add the named lexicons (each from its own file) in the given order; update the model"""
    import random
    from vf import wnio
    for n in names:
        res = {'lmf_version': '1.1', 'lexicons': [u[n]]}
        p = wnio.write_resource(res, work, random.Random(rng_seed + len(n)), name=f'{n}.xml')
        wnio.add(p)
        if m is not None:
            m.add_resource(res)
