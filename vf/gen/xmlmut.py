"""Single-fault mutations of a valid WN-LMF document (text level, on the writer's plain surface).

Every mutation belongs to one of the fault classes the property names:
  illformed     not well-formed XML (unbalanced tag, raw & or <, broken quoting, truncation, two roots)
  header        XML declaration / DOCTYPE missing or altered
  unknown-elem  an element that does not exist in the declared version
  repeated      a single-valued child given twice
  required-attr a required identifying attribute removed
"""

import re

START = re.compile(r'<([A-Za-z]+)((?:\s+[\w:]+="[^"]*")*)\s*(/?)>')
ATTR = re.compile(r'\s+([\w:]+)="([^"]*)"')

# required identifying attributes the reader itself names
REQUIRED = {
    'Lexicon': ['id', 'version', 'label', 'language', 'email', 'license'],
    'LexiconExtension': ['id', 'version', 'label', 'language', 'email', 'license'],
    'Extends': ['id', 'version'],
    'Requires': ['id', 'version'],
    'LexicalEntry': ['id'],
    'ExternalLexicalEntry': ['id'],
    'Lemma': ['writtenForm', 'partOfSpeech'],
    'Form': ['writtenForm'],
    'ExternalForm': ['id'],
    'Tag': ['category'],
    'Sense': ['id', 'synset'],
    'ExternalSense': ['id'],
    'Synset': ['id', 'ili'],
    'ExternalSynset': ['id'],
    'SenseRelation': ['target', 'relType'],
    'SynsetRelation': ['target', 'relType'],
    'SyntacticBehaviour': ['subcategorizationFrame'],
}
SINGLE = ['Lemma', 'ILIDefinition', 'Extends', 'ExternalLemma']
ONLY_1_1 = ['Requires', 'Pronunciation', 'ExternalSynset', 'LexiconExtension']
ALL_ELEMS = ['Lexicon', 'LexicalEntry', 'Lemma', 'Form', 'Tag', 'Sense', 'SenseRelation', 'Example', 'Count',
             'SyntacticBehaviour', 'Synset', 'Definition', 'ILIDefinition', 'SynsetRelation', 'Requires', 'Extends',
             'Pronunciation', 'LexiconExtension', 'ExternalLexicalEntry', 'ExternalLemma', 'ExternalForm',
             'ExternalSense', 'ExternalSynset']


def _starts(text, name=None):
    return [m for m in START.finditer(text) if name is None or m.group(1) == name]


def _element_span(text, m):
    """(start, end) of the whole element whose start tag is match m (plain surface, properly nested)."""
    name = m.group(1)
    if m.group(3) == '/':
        return m.start(), m.end()
    depth = 1
    pos = m.end()
    tag = re.compile(r'<(/?)%s\b[^>]*?(/?)>' % re.escape(name))
    for t in tag.finditer(text, pos):
        if t.group(1) == '/':
            depth -= 1
            if depth == 0:
                return m.start(), t.end()
        elif t.group(2) != '/':
            depth += 1
    return m.start(), m.end()


def mutations(text, version, rng, per_kind=1):
    """Yield (fault_class, description, mutated_text).  ``per_kind`` positions per (class, element kind)."""
    body_start = text.index('<LexicalResource')
    out = []

    # ---- required attributes
    for name, attrs in REQUIRED.items():
        ms = _starts(text, name)
        if not ms:
            continue
        for attr in attrs:
            cands = [m for m in ms if re.search(r'\s%s="' % attr, m.group(2))]
            for m in rng.sample(cands, min(per_kind, len(cands))):
                new_attrs = re.sub(r'\s+%s="[^"]*"' % attr, '', m.group(2), count=1)
                tagtext = f'<{name}{new_attrs}{m.group(3)}>'
                out.append(('required-attr', f'{name}@{attr} removed',
                            text[:m.start()] + tagtext + text[m.end():]))

    # ---- unknown elements (renamed)
    present = sorted({m.group(1) for m in _starts(text)} & set(ALL_ELEMS))
    for name in present:
        ms = _starts(text, name)
        for m in rng.sample(ms, min(per_kind, len(ms))):
            s, e = _element_span(text, m)
            elem = text[s:e]
            new = re.sub(r'^<%s\b' % name, f'<{name}X', elem)
            if not elem.endswith('/>') or '</' in elem:
                new = re.sub(r'</%s>$' % name, f'</{name}X>', new)
            out.append(('unknown-elem', f'{name} renamed to {name}X', text[:s] + new + text[e:]))
    if version == '1.0':
        ms = _starts(text, 'Lexicon')
        if ms:
            m = ms[0]
            out.append(('unknown-elem', 'Requires inside a 1.0 Lexicon',
                        text[:m.end()] + '\n<Requires id="dep" version="1"/>' + text[m.end():]))
        ms = [m for m in _starts(text, 'Lemma')]
        for m in rng.sample(ms, min(per_kind, len(ms))):
            s, e = _element_span(text, m)
            elem = text[s:e]
            if elem.endswith('/>'):
                new = elem[:-2] + '><Pronunciation>x</Pronunciation></Lemma>'
            else:
                new = elem.replace('</Lemma>', '<Pronunciation>x</Pronunciation></Lemma>')
            out.append(('unknown-elem', 'Pronunciation inside a 1.0 Lemma', text[:s] + new + text[e:]))
        ms = _starts(text, 'Synset')
        for m in rng.sample(ms, min(per_kind, len(ms))):
            s, e = _element_span(text, m)
            out.append(('unknown-elem', 'ExternalSynset in a 1.0 document',
                        text[:e] + '\n<ExternalSynset id="zz"/>' + text[e:]))

    # ---- repeated single-valued children
    for name in SINGLE:
        ms = _starts(text, name)
        for m in rng.sample(ms, min(per_kind, len(ms))):
            s, e = _element_span(text, m)
            out.append(('repeated', f'{name} given twice', text[:e] + '\n' + text[s:e] + text[e:]))

    # ---- ill-formed
    ends = list(re.finditer(r'</[A-Za-z]+>', text))
    for m in rng.sample(ends, min(per_kind * 3, len(ends))):
        out.append(('illformed', f'end tag {m.group(0)} removed', text[:m.start()] + text[m.end():]))
    attrs = [m for m in re.finditer(r'="([^"]*)"', text[body_start:])]
    for m in rng.sample(attrs, min(per_kind * 2, len(attrs))):
        p = body_start + m.start(1)
        out.append(('illformed', 'raw & in attribute value', text[:p] + 'a & b' + text[p:]))
    for m in rng.sample(attrs, min(per_kind * 2, len(attrs))):
        p = body_start + m.start(1)
        out.append(('illformed', 'raw < in attribute value', text[:p] + 'a<b' + text[p:]))
    for m in rng.sample(attrs, min(per_kind * 2, len(attrs))):
        p = body_start + m.end(1)
        out.append(('illformed', 'closing quote of an attribute removed', text[:p] + text[p + 1:]))
    texts = [m for m in re.finditer(r'>([^<>]+)</', text[body_start:]) if m.group(1).strip()]
    for m in rng.sample(texts, min(per_kind * 2, len(texts))):
        p = body_start + m.start(1)
        out.append(('illformed', 'raw & in text', text[:p] + 'x & y ' + text[p:]))
    for m in rng.sample(texts, min(per_kind * 2, len(texts))):
        p = body_start + m.start(1)
        out.append(('illformed', 'raw < in text', text[:p] + 'x < y ' + text[p:]))
    last = text.rindex('</LexicalResource>')
    for _ in range(per_kind * 3):
        p = rng.randrange(body_start + 20, last)
        out.append(('illformed', f'file truncated at byte {p}', text[:p]))
    out.append(('illformed', 'final end tag missing', text[:last]))
    out.append(('illformed', 'empty file', ''))
    out.append(('illformed', 'file with one blank line', '\n'))
    out.append(('illformed', 'header only', text[:body_start]))
    out.append(('illformed', 'second root element', text + '<LexicalResource/>\n'))
    out.append(('illformed', 'text after the root element', text + 'trailing\n'))

    # ---- header
    lines = text.split('\n', 2)
    decl, doctype, rest = lines[0], lines[1], lines[2]
    hdr = [
        ('XML declaration missing', doctype + '\n' + rest),
        ('DOCTYPE missing', decl + '\n' + rest),
        ('both header lines missing', rest),
        ('XML declaration says version 1.1', decl.replace('version="1.0"', 'version="1.1"') + '\n' + doctype + '\n' + rest),
        ('XML declaration says another encoding', decl.replace('UTF-8', 'ISO-8859-1') + '\n' + doctype + '\n' + rest),
        ('DOCTYPE of an unsupported version', decl + '\n' + doctype.replace(f'WN-LMF-{version}.dtd', 'WN-LMF-2.0.dtd') + '\n' + rest),
        ('DOCTYPE of another root element', decl + '\n' + doctype.replace('LexicalResource SYSTEM', 'Lexicon SYSTEM') + '\n' + rest),
        ('DOCTYPE with another schema location', decl + '\n' + doctype.replace('http://globalwordnet.github.io/schemas/', 'http://example.org/') + '\n' + rest),
        ('blank line before the XML declaration', '\n' + text),
        ('header lines swapped', doctype + '\n' + decl + '\n' + rest),
    ]
    for desc, t in hdr:
        out.append(('header', desc, t))
    return out
