"""Seeded generator of WN-LMF document models.

A document model has the shape of the loader's normal form (what ``wn.lmf.load`` returns):
plain dicts and lists.  It is produced here from a ``random.Random`` and a profile, never
from the library, and is serialised by ``vf.xmlw`` (also independent of the library).

Hostile on purpose: few identifiers (collisions across lexicons are common, uniqueness inside
one lexicon / extension family is kept), XML-special and non-BMP characters, every optional
attribute/child independently present or absent, metadata wherever it is allowed.
"""

import copy
import hashlib
import json

LMF_VERSIONS = ('1.0', '1.1', '1.2', '1.3')

DC_ATTRS = ['contributor', 'coverage', 'creator', 'date', 'description', 'format', 'identifier',
            'publisher', 'relation', 'rights', 'source', 'subject', 'title', 'type']
META_KEYS = DC_ATTRS + ['status', 'note', 'confidenceScore']

POS = ['n', 'v', 'a', 'r', 's', 't', 'c', 'p', 'x', 'u']

# strings that try to break quoting/escaping/encoding.  ATTR strings may contain any
# XML-1.0 character; TEXT strings must survive the loader's whitespace normalisation
# unchanged, i.e. they are already in normal form (no leading/trailing/double blanks and
# no character that str.split() regards as white space).
ATTR_HOSTILE = [
    'a"b', "a'b", '"', "'", 'a<b', 'a>b', 'a&b', 'a&amp;b', '&lt;x&gt;', '&#38;', ']]>', '<![CDATA[x]]>',
    'tab\there', 'nl\nhere', 'cr\rhere', 'crlf\r\nhere', ' lead', 'trail ', 'two  spaces', ' ',
    'é', 'é', '日本語', 'עברית', '\U0001F600', '\U0001D11E',
    'x\u0085y', 'x y', 'x y', 'ﬁ', '①', 'Ａ', 'a=b', 'id="x"', "id='y'", 'x/>', '<!--c-->',
    '%s', '{0}', '\\', '\\n', 'NULL', "'; DROP TABLE lexicons; --", '?', ':name', '​', 'ß', 'İ',
]
TEXT_HOSTILE = [
    'a"b', "a'b", 'a<b', 'a>b', 'a&b', 'a&amp;b', '&lt;x&gt;', '&#38;', ']]>', 'two words', 'a b c',
    'é', 'é', '日本語', 'עברית', '\U0001F600', '\U0001D11E',
    'ﬁ', '①', 'x/>', '<!--c-->', '%s', '\\', "'; DROP TABLE x; --", '​', 'a=b',
]
PLAIN_WORDS = ['alpha', 'beta', 'gamma', 'delta', 'kappa', 'lambda', 'omega', 'one two', 'x', 'Y', 'Zed']

FORM_POOL = ['cat', 'Cat', 'CAT', 'cats', 'resume', 'résumé', 'Résumé', 'RESUME', 'résume',
             'wolf', 'wolves', 'axes', 'axe', 'ax', 'axis', 'San Jose', 'san josé', 'ice cream', 'ice-cream',
             '猫', 'ネコ', 'кот', 'ﬁsh', 'fish', 'a"b', "o'clock", 'R&D', '<tag>', 'x>y',
             '\U0001F600', 'naïve', 'naive', 'Naive', 'straße', 'İstanbul', 'run', 'runs', 'ran', 'running']

REL_SYNSET = ['hypernym', 'hyponym', 'instance_hypernym', 'instance_hyponym', 'mero_part', 'holo_part',
              'similar', 'also', 'antonym', 'attribute', 'causes', 'is_caused_by', 'other', 'domain_topic',
              'has_domain_topic', 'made_up_rel', 'eq_synonym']
REL_SENSE = ['antonym', 'also', 'derivation', 'pertainym', 'participle', 'similar', 'other', 'domain_topic',
             'has_domain_topic', 'exemplifies', 'is_exemplified_by', 'made_up_rel']
REL_SENSE_SYNSET = ['other', 'domain_topic', 'domain_region', 'exemplifies', 'made_up_rel']


def canonical_hash(obj) -> str:
    s = json.dumps(obj, sort_keys=True, ensure_ascii=True, default=str)
    return hashlib.blake2b(s.encode(), digest_size=10).hexdigest()


class Profile(dict):
    """Generation knobs with defaults."""
    DEFAULTS = dict(
        hostile=0.35,          # probability that a free string comes from the hostile pool
        p_opt=0.5,             # probability of each optional attribute/child
        p_meta=0.4,            # probability of metadata on a meta-bearing element
        max_entries=5, max_synsets=5, max_senses=3, max_forms=3, max_rel=3,
        ili='mixed',           # 'mixed' | 'unique' | 'none' | 'shared'
        ili_pool=None,         # list of ILI ids to draw from
        frames='auto',         # 'auto' | 'none' | 'subcat' | 'senses'
        members=0.6,
        form_pool=None,
        idstyle='short',       # 'short' (collide across lexicons) | 'prefixed'
        empty_optional=0.0,    # probability that a present optional attribute is ''
        pos_pool=None,
        blank_text=0.08,
        long_text=0.004,       # probability of a text longer than the XML parser's buffer (8 KiB)
        relations=True,
        lexfile=True,
        dup_rel=0.1,
        rel_synset=None, rel_sense=None, rel_sense_synset=None,   # relation type pools
        p_rel=0.6,
    )

    def __init__(self, **kw):
        super().__init__(self.DEFAULTS)
        unknown = set(kw) - set(self.DEFAULTS)
        if unknown:
            raise KeyError(unknown)
        self.update(kw)


class Gen:
    def __init__(self, rng, profile=None):
        self.r = rng
        self.p = profile or Profile()

    # ---- strings
    def attr_string(self, nonempty=True):
        r = self.r
        if r.random() < self.p['hostile']:
            parts = [r.choice(ATTR_HOSTILE) for _ in range(r.choice([1, 1, 2, 3]))]
            s = r.choice(['', 'x', ' ']).join(parts)
        else:
            s = r.choice(PLAIN_WORDS) + r.choice(['', '', str(r.randrange(100))])
        if nonempty and not s:
            s = 'x'
        return s

    def text_string(self):
        r = self.r
        if r.random() < self.p['blank_text']:
            return ''
        if r.random() < self.p['long_text']:
            unit = r.choice(['lorem ipsum dolor', 'désolé çà et là', '日本語のテキスト', 'a&b <c> "d"'])
            words = [unit + str(i) for i in range(r.choice([600, 1500, 3000]))]
            return ' '.join(words)
        if r.random() < self.p['hostile']:
            parts = [r.choice(TEXT_HOSTILE) for _ in range(r.choice([1, 2, 3]))]
        else:
            parts = [r.choice(PLAIN_WORDS) for _ in range(r.choice([1, 2, 4]))]
        return ' '.join(' '.join(parts).split())

    def opt(self, p=None):
        return self.r.random() < (self.p['p_opt'] if p is None else p)

    def meta(self, force=False):
        r = self.r
        if not force and r.random() >= self.p['p_meta']:
            return None
        keys = r.sample(META_KEYS, r.choice([1, 1, 2, 3, len(META_KEYS)]))
        m = {}
        for k in META_KEYS:  # keep a canonical key order
            if k in keys:
                if k == 'confidenceScore':
                    m[k] = r.choice(['1.0', '0.5', '0', '0.25', '1'])
                else:
                    m[k] = self.attr_string()
        return m or None

    # ---- elements
    def pronunciation(self):
        p = {'text': self.text_string()}
        if self.opt():
            p['variety'] = self.attr_string()
        if self.opt():
            p['notation'] = self.attr_string()
        if self.opt(0.3):
            p['phonemic'] = self.r.choice([True, False])
        if self.opt():
            p['audio'] = self.attr_string()
        return p

    def tag(self):
        return {'text': self.text_string(), 'category': self.attr_string()}

    def form_children(self, d, lmfver):
        r = self.r
        if lmfver != '1.0' and self.opt(0.35):
            d['pronunciations'] = [self.pronunciation() for _ in range(r.choice([1, 1, 2]))]
        if self.opt(0.35):
            d['tags'] = [self.tag() for _ in range(r.choice([1, 1, 2]))]

    def example(self):
        e = {'text': self.text_string(), 'meta': self.meta()}
        if self.opt(0.3):
            e['language'] = self.r.choice(['en', 'fr', 'zh-Hant', self.attr_string()])
        return e

    def count(self):
        return {'value': self.r.choice([0, 1, 2, 7, 42, 10 ** 12, -3]), 'meta': self.meta()}

    def relation(self, target, reltypes):
        m = self.meta()
        if self.opt(0.25):
            m = dict(m or {})
            m['type'] = self.r.choice(['sub1', 'sub2', self.attr_string()])
            m = {k: m[k] for k in META_KEYS if k in m}
        return {'target': target, 'relType': self.r.choice(reltypes), 'meta': m}

    def definition(self, sense_ids):
        d = {'text': self.text_string(), 'meta': self.meta()}
        if self.opt(0.3):
            d['language'] = self.r.choice(['en', 'de', self.attr_string()])
        if sense_ids and self.opt(0.3):
            d['sourceSense'] = self.r.choice(sense_ids)
        return d


def _ids(prefix, kind, n):
    return [f'{prefix}{kind}{i}' for i in range(1, n + 1)]


def gen_lexicon(rng, lmfver, lexid, lexver, profile=None, base=None, language=None, requires=None,
                idprefix=None, label=None):
    """Generate one lexicon (``base`` is None) or one lexicon extension of the lexicon doc ``base``."""
    p = profile or Profile()
    g = Gen(rng, p)
    r = rng
    ext = base is not None
    if ext and lmfver == '1.0':
        raise ValueError('extensions need LMF >= 1.1')
    pre = idprefix if idprefix is not None else ('' if p['idstyle'] == 'short' else f'{lexid}-')
    if ext and idprefix is None:
        # identifiers inside one extension family stay unique (documented precondition)
        pre = f'x-{lexid}-{lexver}-'
    posp = p['pos_pool'] or POS
    formp = p['form_pool'] or FORM_POOL

    lex = {
        'id': lexid,
        'label': label if label is not None else ('' if r.random() < 0.04 else g.attr_string()),
        'language': language or r.choice(['en', 'fr', 'ja', 'en-GB']),
        'email': g.attr_string(),
        'license': g.attr_string(),
        'version': lexver,
    }
    for k in ('url', 'citation'):
        if g.opt():
            lex[k] = '' if r.random() < p['empty_optional'] else g.attr_string()
    if lmfver != '1.0' and g.opt():
        lex['logo'] = '' if r.random() < p['empty_optional'] else g.attr_string()
    lex['meta'] = g.meta()
    if ext:
        lex['extends'] = {'id': base['id'], 'version': base['version']}
        if g.opt(0.3):
            lex['extends']['url'] = g.attr_string()
    if requires and lmfver != '1.0':
        lex['requires'] = []
        for rid, rver in requires:
            d = {'id': rid, 'version': rver}
            if g.opt(0.3):
                d['url'] = g.attr_string()
            lex['requires'].append(d)

    # ---------------- synsets
    n_ss = r.randint(1, p['max_synsets'])
    ss_ids = _ids(pre, 'ss', n_ss)
    synsets = []
    ili_pool = p['ili_pool'] or [f'i{n}' for n in range(1, 9)]
    used_ili = set()
    for sid in ss_ids:
        ss = {'id': sid}
        mode = p['ili']
        ili = ''
        if mode != 'none':
            x = r.random()
            if mode == 'mixed':
                if x < 0.45:
                    ili = r.choice(ili_pool)
                elif x < 0.6:
                    ili = 'in'
            elif mode == 'unique':
                if x < 0.6:
                    cands = [i for i in ili_pool if i not in used_ili]
                    if cands:
                        ili = r.choice(cands)
                elif x < 0.7:
                    ili = 'in'
            elif mode == 'shared':
                if x < 0.8:
                    ili = r.choice(ili_pool)
                elif x < 0.9:
                    ili = 'in'
        if ili and ili != 'in':
            used_ili.add(ili)
        ss['ili'] = ili
        if g.opt(0.9):
            ss['partOfSpeech'] = r.choice(posp)
        ss['meta'] = g.meta()
        if g.opt(0.2):
            ss['lexicalized'] = r.choice([True, False])
        if lmfver != '1.0' and p['lexfile'] and g.opt(0.4):
            ss['lexfile'] = r.choice(['noun.animal', 'noun.Animal', 'NOUN.ANIMAL', 'verb.motion', g.attr_string()])
        if ili == 'in' and g.opt(0.8):
            ss['ili_definition'] = {'text': g.text_string() or 'ilidef', 'meta': g.meta()}
        elif ili and ili != 'in' and g.opt(0.1):
            ss['ili_definition'] = {'text': g.text_string() or 'ilidef', 'meta': g.meta()}
        synsets.append(ss)

    # external synsets of the base that this extension talks about
    base_ss = [s['id'] for s in base.get('synsets', []) if not s.get('external')] if ext else []
    base_entries = [e for e in base.get('entries', []) if not e.get('external')] if ext else []
    ext_ss_ids = r.sample(base_ss, r.randint(0, min(3, len(base_ss)))) if ext else []

    # ---------------- entries and senses
    n_e = r.randint(0 if n_ss == 0 else 1, p['max_entries'])
    e_ids = _ids(pre, 'e', n_e)
    entries = []
    sense_n = 0
    all_local_senses = []        # (sense dict, entry)
    ss_members = {sid: [] for sid in ss_ids}
    formctr = [0]

    def new_form(children=True):
        f = {'writtenForm': r.choice(formp)}
        formctr[0] += 1
        if lmfver != '1.0' and g.opt(0.4):
            f['id'] = f'{pre}f{formctr[0]}'
        if g.opt(0.25):
            f['script'] = r.choice(['Latn', 'Cyrl', 'Hani', g.attr_string()])
        if children:
            g.form_children(f, lmfver)
        return f

    def new_sense(synset_targets):
        nonlocal sense_n
        sense_n += 1
        s = {'id': f'{pre}s{sense_n}', 'synset': r.choice(synset_targets), 'meta': g.meta()}
        if g.opt(0.2):
            s['lexicalized'] = r.choice([True, False])
        if g.opt(0.2):
            s['adjposition'] = r.choice(['a', 'p', 'ip', g.attr_string()])
        if g.opt(0.4):
            s['examples'] = [g.example() for _ in range(r.choice([1, 1, 2]))]
        if g.opt(0.4):
            s['counts'] = [g.count() for _ in range(r.choice([1, 1, 2]))]
        return s

    for eid in e_ids:
        e = {'id': eid, 'meta': g.meta()}
        lemma = {'writtenForm': r.choice(formp), 'partOfSpeech': r.choice(posp)}
        if g.opt(0.25):
            lemma['script'] = r.choice(['Latn', 'Cyrl', g.attr_string()])
        g.form_children(lemma, lmfver)
        e['lemma'] = lemma
        nf = r.choice([0, 0, 1, 2, p['max_forms']])
        if nf:
            forms, seen = [], {(lemma['writtenForm'], lemma.get('script'))}
            for _ in range(nf):
                f = new_form()
                key = (f['writtenForm'], f.get('script'))
                if key in seen:          # UNIQUE(entry, form, script) in the schema
                    continue
                seen.add(key)
                forms.append(f)
            if forms:
                e['forms'] = forms
        ns = r.choice([0, 1, 1, 2, p['max_senses']])
        targets = ss_ids + ext_ss_ids
        if ns and targets:
            e['senses'] = []
            for _ in range(ns):
                s = new_sense(targets)
                e['senses'].append(s)
                all_local_senses.append((s, e))
                if s['synset'] in ss_members:
                    ss_members[s['synset']].append(s['id'])
        entries.append(e)

    # ---------------- external entries (extension only)
    ext_sense_ids = []           # base sense ids declared external (can be relation targets)
    if ext:
        for be in r.sample(base_entries, r.randint(0, min(3, len(base_entries)))):
            xe = {'id': be['id'], 'external': True}
            blemma = be['lemma']
            if g.opt(0.4):
                xl = {'external': True}
                g.form_children(xl, lmfver)
                if len(xl) > 1:
                    xe['lemma'] = xl
            forms = []
            seen = {(blemma['writtenForm'], blemma.get('script'))} | {
                (f['writtenForm'], f.get('script')) for f in be.get('forms', [])}
            for bf in be.get('forms', []):
                if bf.get('id') and g.opt(0.5):
                    xf = {'id': bf['id'], 'external': True}
                    g.form_children(xf, lmfver)
                    if len(xf) > 2:
                        forms.append(xf)
            for _ in range(r.choice([0, 0, 1, 2])):
                # a new form on an external entry: outside the documented patterns when it carries
                # tags/pronunciations (the library cannot address it), so it gets none
                f = new_form(children=False)
                # (entry, form, script) is unique in the store whichever lexicon contributes the form: two extensions of
                # one base must not add the same form to the same entry, so each marks the forms it adds
                f['writtenForm'] = f"{f['writtenForm']}~{lexid}"
                key = (f['writtenForm'], f.get('script'))
                if key in seen:
                    continue
                seen.add(key)
                forms.append(f)
            r.shuffle(forms)
            if forms:
                xe['forms'] = forms
            senses = []
            for bs in be.get('senses', []):
                if g.opt(0.5):
                    xs = {'id': bs['id'], 'external': True}
                    if g.opt(0.5):
                        xs['examples'] = [g.example() for _ in range(r.choice([1, 2]))]
                    if g.opt(0.4):
                        xs['counts'] = [g.count()]
                    senses.append(xs)
                    ext_sense_ids.append(bs['id'])
            targets = ss_ids + ext_ss_ids
            for _ in range(r.choice([0, 0, 1, 2])):
                if targets:
                    s = new_sense(targets)
                    senses.append(s)
                    all_local_senses.append((s, xe))
                    if s['synset'] in ss_members:
                        ss_members[s['synset']].append(s['id'])
            r.shuffle(senses)
            if senses:
                xe['senses'] = senses
            entries.append(xe)

    # ---------------- synset details that need senses
    local_sense_ids = [s['id'] for s, _ in all_local_senses]
    for ss in synsets:
        mem = ss_members[ss['id']]
        if lmfver != '1.0' and mem and r.random() < p['members']:
            m = list(mem)
            r.shuffle(m)
            if r.random() < 0.25 and len(m) > 1:
                m = m[:r.randint(1, len(m) - 1)]      # partially listed
            ss['members'] = m
        if g.opt(0.5):
            ss['definitions'] = [g.definition(mem or local_sense_ids) for _ in range(r.choice([1, 1, 2, 3]))]
        if g.opt(0.4):
            ss['examples'] = [g.example() for _ in range(r.choice([1, 1, 2]))]

    ext_synsets = []
    for xid in ext_ss_ids:
        xs = {'id': xid, 'external': True}
        if g.opt(0.5):
            xs['definitions'] = [g.definition(local_sense_ids) for _ in range(r.choice([1, 2]))]
        if g.opt(0.5):
            xs['examples'] = [g.example() for _ in range(r.choice([1, 2]))]
        ext_synsets.append(xs)

    # ---------------- relations
    if p['relations']:
        ss_targets = ss_ids + ext_ss_ids
        s_targets = local_sense_ids + ext_sense_ids
        RS, RSE, RSS = p['rel_synset'] or REL_SYNSET, p['rel_sense'] or REL_SENSE, p['rel_sense_synset'] or REL_SENSE_SYNSET
        for ss in synsets + ext_synsets:
            if ss_targets and g.opt(p['p_rel']):
                rels = [g.relation(r.choice(ss_targets), RS) for _ in range(r.randint(1, p['max_rel']))]
                if rels and r.random() < p['dup_rel']:
                    rels.append(copy.deepcopy(r.choice(rels)))
                ss['relations'] = rels
        for e in entries:
            for s in e.get('senses', []):
                if g.opt(p['p_rel'] - 0.1):
                    rels = []
                    for _ in range(r.randint(1, p['max_rel'])):
                        if s_targets and r.random() < 0.7:
                            rels.append(g.relation(r.choice(s_targets), RSE))
                        elif ss_targets:
                            rels.append(g.relation(r.choice(ss_targets), RSS))
                    if rels and r.random() < p['dup_rel']:
                        rels.append(copy.deepcopy(r.choice(rels)))
                    if rels:
                        s['relations'] = rels

    # ---------------- syntactic behaviours
    fmode = p['frames']
    if fmode == 'auto':
        fmode = r.choice(['none', 'subcat', 'subcat', 'senses']) if lmfver != '1.0' else r.choice(['none', 'entry', 'entry'])
    frame_strings = ['Somebody ----s', 'Something ----s something', 'It is ----ing', g.attr_string() + ' %s']
    frame_strings = list(dict.fromkeys(frame_strings))
    if fmode == 'entry' and lmfver == '1.0' and not ext:
        for e in entries:
            sids = [s['id'] for s in e.get('senses', [])]
            if sids and g.opt(0.5):
                frs = []
                for fs in r.sample(frame_strings, r.randint(1, 3)):
                    fr = {'subcategorizationFrame': fs}
                    if g.opt(0.6):
                        fr['senses'] = r.sample(sids, r.randint(1, len(sids)))
                    frs.append(fr)
                e['frames'] = frs
    elif fmode == 'subcat' and lmfver != '1.0':
        n = r.randint(1, len(frame_strings))
        frames = [{'id': f'{pre}fr{i + 1}', 'subcategorizationFrame': fs}
                  for i, fs in enumerate(r.sample(frame_strings, n))]
        lex['frames'] = frames
        fids = [f['id'] for f in frames]
        for s, _ in all_local_senses:
            if g.opt(0.5):
                s['subcat'] = r.sample(fids, r.randint(1, len(fids)))
    elif fmode == 'senses' and lmfver != '1.0':
        # valid per the DTD: lexicon-level frame carrying IDREFS, id optional
        n = r.randint(1, len(frame_strings))
        frames = []
        for i, fs in enumerate(r.sample(frame_strings, n)):
            fr = {'subcategorizationFrame': fs}
            if g.opt(0.5):
                fr['id'] = f'{pre}fr{i + 1}'
            # (an extension may also give a frame to a sense of its base, naming the ExternalSense)
            pool_ = local_sense_ids + (ext_sense_ids if ext else [])
            if pool_ and g.opt(0.7):
                fr['senses'] = r.sample(pool_, r.randint(1, len(pool_)))
            frames.append(fr)
        lex['frames'] = frames
        # both encodings side by side (valid): other senses point to an id-carrying frame via subcat
        for fr in frames:
            if fr.get('id'):
                for s, _ in all_local_senses:
                    if s['id'] not in (fr.get('senses') or []) and g.opt(0.4):
                        s.setdefault('subcat', []).append(fr['id'])

    if entries:
        lex['entries'] = entries
    if synsets or ext_synsets:
        allss = synsets + ext_synsets
        lex['synsets'] = allss
    # canonical key order: attributes, deps, entries, synsets, frames
    order = ['id', 'label', 'language', 'email', 'license', 'version', 'url', 'citation', 'logo', 'meta',
             'extends', 'requires', 'entries', 'synsets', 'frames']
    return {k: lex[k] for k in order if k in lex}


LEXVERS = ['1', '1.0', '2', '2020', '1.3+omw', 'v-2', '0.1-beta']


def gen_resource(rng, lmfver=None, n_lex=None, profile=None, ext_p=0.35, lexids=None):
    """A resource with 1-3 lexicons; with LMF >= 1.1 some of them extend an earlier one."""
    r = rng
    p = profile or Profile()
    lmfver = lmfver or r.choice(LMF_VERSIONS)
    n_lex = n_lex or r.choice([1, 1, 2, 3])
    lexids = lexids or ['la', 'lb', 'lc', 'la-b', 'ld']
    lexs = []
    used = set()
    for i in range(n_lex):
        while True:
            lid, lver = r.choice(lexids), r.choice(LEXVERS)
            if (lid, lver) not in used:
                used.add((lid, lver))
                break
        base = None
        plain = [x for x in lexs]
        if lmfver != '1.0' and plain and r.random() < ext_p:
            base = r.choice(plain)
        requires = None
        if lmfver != '1.0' and r.random() < 0.25:
            requires = [(r.choice(lexids), r.choice(LEXVERS))]
        lexs.append(gen_lexicon(r, lmfver, lid, lver, p, base=base, requires=requires))
    return {'lmf_version': lmfver, 'lexicons': lexs}


def features(resource):
    """Counter-like dict: which optional features occur in this resource (coverage evidence)."""
    from collections import Counter
    c = Counter()

    def meta(kind, m):
        if m:
            c[f'{kind}@meta'] += 1

    for lex in resource['lexicons']:
        kind = 'LexiconExtension' if lex.get('extends') else 'Lexicon'
        c[kind] += 1
        for k in ('url', 'citation', 'logo', 'requires', 'frames'):
            if lex.get(k):
                c[f'{kind}@{k}'] += 1
        meta(kind, lex.get('meta'))
        for e in lex.get('entries', []):
            ek = 'ExternalLexicalEntry' if e.get('external') else 'LexicalEntry'
            c[ek] += 1
            meta(ek, e.get('meta'))
            lem = e.get('lemma')
            if lem:
                lk = 'ExternalLemma' if lem.get('external') else 'Lemma'
                c[lk] += 1
                for k in ('script', 'pronunciations', 'tags'):
                    if lem.get(k):
                        c[f'{lk}@{k}'] += 1
            for f in e.get('forms', []):
                fk = 'ExternalForm' if f.get('external') else 'Form'
                c[fk] += 1
                for k in ('id', 'script', 'pronunciations', 'tags'):
                    if f.get(k):
                        c[f'{fk}@{k}'] += 1
            if e.get('frames'):
                c['LexicalEntry@frames'] += 1
            for s in e.get('senses', []):
                sk = 'ExternalSense' if s.get('external') else 'Sense'
                c[sk] += 1
                meta(sk, s.get('meta'))
                for k in ('lexicalized', 'adjposition', 'subcat', 'relations', 'examples', 'counts'):
                    if k in s and s[k] not in (None, [], ''):
                        c[f'{sk}@{k}'] += 1
                for x in s.get('relations', []):
                    meta('SenseRelation', x.get('meta'))
                for x in s.get('examples', []):
                    meta('Example', x.get('meta'))
                for x in s.get('counts', []):
                    meta('Count', x.get('meta'))
        for ss in lex.get('synsets', []):
            sk = 'ExternalSynset' if ss.get('external') else 'Synset'
            c[sk] += 1
            meta(sk, ss.get('meta'))
            for k in ('partOfSpeech', 'lexicalized', 'members', 'lexfile', 'ili_definition', 'definitions',
                      'relations', 'examples'):
                if k in ss and ss[k] not in (None, [], ''):
                    c[f'{sk}@{k}'] += 1
            if ss.get('ili') == 'in':
                c['Synset@ili=in'] += 1
            elif ss.get('ili'):
                c['Synset@ili'] += 1
            for x in ss.get('relations', []):
                meta('SynsetRelation', x.get('meta'))
            for x in ss.get('definitions', []):
                meta('Definition', x.get('meta'))
            for x in ss.get('examples', []):
                meta('Example', x.get('meta'))
            if ss.get('ili_definition'):
                meta('ILIDefinition', ss['ili_definition'].get('meta'))
    return c
