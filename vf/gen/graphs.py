"""Hypernym graphs: exhaustive small ones, random larger ones, and their packing into lexicons.

A graph is (n, edges) with edges a list of (u, v): "v is a hypernym of u" (self-loops allowed).
"""

import itertools


def all_labelled(n):
    """every labelled digraph on n nodes, self-loops included: 2**(n*n) graphs"""
    cells = [(u, v) for u in range(n) for v in range(n)]
    for mask in range(1 << len(cells)):
        yield n, [cells[i] for i in range(len(cells)) if mask >> i & 1]


_iso_cache = {}


def up_to_isomorphism(n, loops=True):
    """one representative per isomorphism class of digraphs on n nodes (n = 4: 3044 with loops, 218 without)"""
    key = (n, loops)
    if key in _iso_cache:
        return _iso_cache[key]
    cells = [(u, v) for u in range(n) for v in range(n) if loops or u != v]
    idx = {c: i for i, c in enumerate(cells)}
    perms = list(itertools.permutations(range(n)))
    tables = []
    for p in perms:
        tables.append([idx[(p[u], p[v])] for (u, v) in cells])
    seen = set()
    reps = []
    for mask in range(1 << len(cells)):
        if mask in seen:
            continue
        bits = [i for i in range(len(cells)) if mask >> i & 1]
        orbit = set()
        for t in tables:
            m2 = 0
            for i in bits:
                m2 |= 1 << t[i]
            orbit.add(m2)
        seen |= orbit
        reps.append((n, [cells[i] for i in bits]))
    _iso_cache[key] = reps
    return reps


def random_graph(r, n=None, kind=None):
    n = n or r.randint(5, 12)
    kind = kind or r.choice(['forest', 'diamonds', 'multiroot', 'dag', 'cyclic', 'cyclic'])
    edges = set()
    if kind == 'forest':
        for u in range(1, n):
            if r.random() < 0.85:
                edges.add((u, r.randrange(u)))
    elif kind == 'diamonds':
        # stacked diamonds: node i has two parents among lower-numbered nodes
        for u in range(1, n):
            for v in r.sample(range(u), min(u, r.choice([1, 2, 2, 3]))):
                edges.add((u, v))
    elif kind == 'multiroot':
        roots = r.randint(2, 3)
        for u in range(roots, n):
            for v in r.sample(range(u), min(u, r.choice([1, 1, 2]))):
                edges.add((u, v))
    elif kind == 'dag':
        for u in range(n):
            for v in range(u):
                if r.random() < 0.25:
                    edges.add((u, v))
    else:
        for u in range(1, n):
            for v in r.sample(range(u), min(u, r.choice([1, 1, 2]))):
                edges.add((u, v))
        for _ in range(r.randint(1, 3)):
            u, v = r.randrange(n), r.randrange(n)
            edges.add((u, v))      # back edges / self-loops
    return n, sorted(edges)


def is_dag(n, edges):
    adj = {u: [] for u in range(n)}
    for u, v in edges:
        if u == v:
            return False
        adj[u].append(v)
    state = {}

    def visit(u):
        if state.get(u) == 1:
            return False
        if state.get(u) == 2:
            return True
        state[u] = 1
        for v in adj[u]:
            if not visit(v):
                return False
        state[u] = 2
        return True
    return all(visit(u) for u in range(n))


def lexicon_for(gid, graph, pos_of, r=None, instance_p=0.2, words=True, version='1'):
    """One lexicon holding one graph: synsets g<gid>-n<j>, hypernym (or instance_hypernym) relations and their
    reverses, one word per synset (lemma w<gid>x<j>) so the graph is usable for information content."""
    n, edges = graph
    lid = f'g{gid}'
    synsets, entries = [], []
    rels = {j: [] for j in range(n)}
    for (u, v) in edges:
        inst = r is not None and r.random() < instance_p
        rels[u].append({'target': f'{lid}-n{v}', 'relType': 'instance_hypernym' if inst else 'hypernym', 'meta': None})
        rels[v].append({'target': f'{lid}-n{u}', 'relType': 'instance_hyponym' if inst else 'hyponym', 'meta': None})
    for j in range(n):
        ss = {'id': f'{lid}-n{j}', 'ili': '', 'partOfSpeech': pos_of(j), 'meta': None}
        if rels[j]:
            ss['relations'] = rels[j]
        synsets.append(ss)
        if words:
            entries.append({'id': f'{lid}-w{j}', 'meta': None,
                            'lemma': {'writtenForm': f'w{gid}x{j}', 'partOfSpeech': pos_of(j)},
                            'senses': [{'id': f'{lid}-s{j}', 'synset': f'{lid}-n{j}', 'meta': None}]})
    lex = {'id': lid, 'label': f'graph {gid}', 'language': 'en', 'email': 'e', 'license': 'l', 'version': version,
           'meta': None, 'synsets': synsets}
    if entries:
        lex['entries'] = entries
    return lex
