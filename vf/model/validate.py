"""Reference for the validator (C18): for each check code two sets derived from the one-line documented condition -
*must* (unambiguous positives) and *may* (everything else the wording can cover).  Alarm iff must is not a subset of
the reported keys or the reported keys are not a subset of must | may.  See DESIGN.md appendix A."""

from collections import Counter

CODES = ['E101', 'W201', 'W202', 'W203', 'E204', 'W301', 'W302', 'W303', 'W304', 'W305', 'W306', 'W307',
         'E401', 'W402', 'W403', 'W404', 'W501', 'W502']

MESSAGES = {
    'E101': 'ID is not unique within the lexicon',
    'W201': 'lexical entry has no senses',
    'W202': 'redundant sense between lexical entry and synset',
    'W203': 'redundant lexical entry with the same lemma and synset',
    'E204': 'synset of sense is missing',
    'W301': 'synset is empty (not associated with any lexical entries)',
    'W302': 'ILI is repeated across synsets',
    'W303': 'proposed ILI is missing a definition',
    'W304': 'existing ILI has a spurious definition',
    'W305': 'synset has a blank definition',
    'W306': 'synset has a blank example',
    'W307': 'synset repeats an existing definition',
    'E401': 'relation target is missing or invalid',
    'W402': 'relation type is invalid for the source and target',
    'W403': 'redundant relation between source and target',
    'W404': 'reverse relation is missing',
    'W501': "synset's part-of-speech is different from its hypernym's",
    'W502': 'relation is a self-loop',
}


def select_codes(select):
    s = set(select)
    return [c for c in CODES if c in s or c[0] in s]


def _entries(lex):
    return lex.get('entries') or []


def _senses(e):
    return e.get('senses') or []


def _synsets(lex):
    return lex.get('synsets') or []


def bounds(lex, consts):
    """{code: (must, may)} with sets of report keys."""
    SENSE_RELATIONS, SENSE_SYNSET_RELATIONS, SYNSET_RELATIONS, REVERSE = consts
    out = {}
    entry_ids = [e['id'] for e in _entries(lex)]
    sense_ids = [s['id'] for e in _entries(lex) for s in _senses(e)]
    synset_ids = [ss['id'] for ss in _synsets(lex)]
    sense_set, synset_set = set(sense_ids), set(synset_ids)

    # E101: one XML ID namespace
    allids = [lex['id']] + entry_ids + sense_ids + synset_ids
    allids += [f['id'] for e in _entries(lex) for f in e.get('forms') or [] if f.get('id')]
    allids += [fr['id'] for fr in lex.get('frames') or [] if fr.get('id')]
    out['E101'] = ({i for i, c in Counter(allids).items() if c > 1}, set())

    out['W201'] = ({e['id'] for e in _entries(lex) if not _senses(e)}, set())

    must = set()
    for e in _entries(lex):
        cnt = Counter(s['synset'] for s in _senses(e))
        must |= {s['id'] for s in _senses(e) if cnt[s['synset']] > 1}
    out['W202'] = (must, set())

    # W203: key = lemma form
    pairs = {}
    for e in _entries(lex):
        for ssid in {s['synset'] for s in _senses(e)}:
            pairs.setdefault((e['lemma']['writtenForm'], ssid), set()).add(e['id'])
    must = {form for (form, ssid), es in pairs.items() if len(es) > 1}
    may = set()
    for e in _entries(lex):
        cnt = Counter(s['synset'] for s in _senses(e))
        if any(c > 1 for c in cnt.values()):
            may.add(e['lemma']['writtenForm'])
    # entries sharing an *id* and a lemma are two entries by position but one by id: allowed either way
    byid = Counter(entry_ids)
    for e in _entries(lex):
        if byid[e['id']] > 1:
            may.add(e['lemma']['writtenForm'])
    out['W203'] = (must - may, may | must)

    out['E204'] = ({s['id'] for e in _entries(lex) for s in _senses(e) if s['synset'] not in synset_set}, set())

    used = {s['synset'] for e in _entries(lex) for s in _senses(e)}
    out['W301'] = ({ss['id'] for ss in _synsets(lex) if ss['id'] not in used}, set())

    cnt = Counter(ss['ili'] for ss in _synsets(lex) if ss.get('ili') and ss['ili'] != 'in')
    out['W302'] = ({ss['id'] for ss in _synsets(lex) if cnt.get(ss.get('ili'), 0) > 1}, set())

    def blank(d):
        return d is not None and not (d.get('text') or '').strip()

    must = {ss['id'] for ss in _synsets(lex) if ss.get('ili') == 'in' and ss.get('ili_definition') is None}
    may = {ss['id'] for ss in _synsets(lex) if ss.get('ili') == 'in' and (blank(ss.get('ili_definition')) or ss.get('ili_definition') == {})}
    out['W303'] = (must, may)

    real = [ss for ss in _synsets(lex) if ss.get('ili') and ss['ili'] != 'in']
    must = {ss['id'] for ss in real if ss.get('ili_definition') and not blank(ss['ili_definition'])}
    may = {ss['id'] for ss in real if ss.get('ili_definition') is not None}
    out['W304'] = (must, may)

    out['W305'] = ({ss['id'] for ss in _synsets(lex) if any(not (d.get('text') or '').strip() for d in ss.get('definitions') or [])}, set())
    out['W306'] = ({ss['id'] for ss in _synsets(lex) if any(not (x.get('text') or '').strip() for x in ss.get('examples') or [])}, set())

    texts = {}
    for ss in _synsets(lex):
        for d in ss.get('definitions') or []:
            texts.setdefault(d.get('text') or '', []).append(ss['id'])
    must, may = set(), set()
    for t, owners in texts.items():
        if len(owners) < 2:
            continue
        distinct = set(owners)
        if t.strip() and len(distinct) > 1 and len(synset_ids) == len(synset_set):
            must |= distinct
        else:
            may |= distinct
    out['W307'] = (must - may, may | must)

    # relations
    srels = [(s, r) for e in _entries(lex) for s in _senses(e) for r in s.get('relations') or []]
    ssrels = [(ss, r) for ss in _synsets(lex) for r in ss.get('relations') or []]

    must = {s['id'] for s, r in srels if r['target'] not in sense_set and r['target'] not in synset_set}
    must |= {ss['id'] for ss, r in ssrels if r['target'] not in synset_set}
    out['E401'] = (must, set())

    must = set()
    may = set()
    for s, r in srels:
        t = r['target']
        in_s, in_ss = t in sense_set, t in synset_set
        bad_s = in_s and r['relType'] not in SENSE_RELATIONS
        bad_ss = in_ss and r['relType'] not in SENSE_SYNSET_RELATIONS
        if in_s and in_ss:
            # id used both for a sense and a synset: either reading
            if bad_s or bad_ss:
                may.add(s['id'])
            if bad_s and bad_ss:
                must.add(s['id'])
        elif bad_s or bad_ss:
            must.add(s['id'])
    for ss, r in ssrels:
        if r['relType'] not in SYNSET_RELATIONS:
            if r['target'] in synset_set:
                must.add(ss['id'])
            else:
                may.add(ss['id'])
    out['W402'] = (must, may)

    def dct(r):
        return (r.get('meta') or {}).get('type')

    cnt = Counter([(s['id'], r['relType'], r['target'], dct(r)) for s, r in srels]
                  + [(ss['id'], r['relType'], r['target'], dct(r)) for ss, r in ssrels])
    must = {k[0] for k, c in cnt.items() if c > 1}
    # the same key declared once on a sense and once on a synset that share an id counts as twice for a check that
    # looks at ids only; duplicated ids make "the source" ambiguous -> may
    out['W403'] = (must, set())

    declared_s = {(s['id'], r['relType'], r['target']) for s, r in srels if r['target'] in sense_set}
    declared_ss = {(ss['id'], r['relType'], r['target']) for ss, r in ssrels}
    declared = declared_s | declared_ss
    must, may = set(), set()
    for (src, typ, tgt) in declared:
        if typ in REVERSE and (tgt, REVERSE[typ], src) not in declared:
            existing = (tgt in sense_set) if (src, typ, tgt) in declared_s and (src, typ, tgt) not in declared_ss else \
                       (tgt in synset_set) if (src, typ, tgt) in declared_ss and (src, typ, tgt) not in declared_s else \
                       (tgt in sense_set or tgt in synset_set)
            (must if existing else may).add(tgt)
    # ids shared between a sense and a synset blur which relation is whose: allow, don't demand
    shared = sense_set & synset_set
    if shared:
        may |= must
        must = set()
    out['W404'] = (must - may, may | must)

    pos = {}
    for ss in _synsets(lex):
        pos.setdefault(ss['id'], set()).add(ss.get('partOfSpeech'))
    must, may = set(), set()
    for ss, r in ssrels:
        if r['relType'] == 'hypernym':
            tp = pos.get(r['target'])
            sp = ss.get('partOfSpeech')
            if tp is None:
                may.add(ss['id'])
            elif len(tp) == 1 and None not in tp and sp is not None and len(pos[ss['id']]) == 1:
                if sp not in tp:
                    must.add(ss['id'])
            else:
                if tp != {sp}:
                    may.add(ss['id'])
        elif r['relType'] == 'instance_hypernym':
            tp = pos.get(r['target'])
            if tp is None or tp != {ss.get('partOfSpeech')}:
                may.add(ss['id'])
    out['W501'] = (must - may, may | must)

    must = {s['id'] for s, r in srels if r['target'] == s['id']} | {ss['id'] for ss, r in ssrels if r['target'] == ss['id']}
    out['W502'] = (must, set())
    return out
