"""Reference models for word-form search (C09) and Morphy (C17), written from
docs/guides/lemmatization.rst, docs/api/wn.morphy.rst (+ the PWN morphy description) and the property statements."""

import unicodedata


def normalize(s):
    """lower-case, NFKD, combining marks dropped (the documented default normalizer)"""
    return ''.join(c for c in unicodedata.normalize('NFKD', s.lower()) if not unicodedata.combining(c))


# detachment rules as data: pos -> [(suffix, replacement)]
RULES = {
    'n': [('s', ''), ('ces', 'x'), ('ses', 's'), ('ves', 'f'), ('ives', 'ife'), ('xes', 'x'), ('xes', 'xis'), ('zes', 'z'),
          ('ches', 'ch'), ('shes', 'sh'), ('men', 'man'), ('ies', 'y')],
    'v': [('s', ''), ('ies', 'y'), ('es', 'e'), ('es', ''), ('ed', 'e'), ('ed', ''), ('ing', 'e'), ('ing', '')],
    'a': [('er', ''), ('est', ''), ('er', 'e'), ('est', 'e')],
    'r': [],
}
RULES['s'] = RULES['a']
MORPHY_POS = ['n', 'v', 'a', 'r', 's']


def rule_outputs(form, pos):
    return {form[:-len(s)] + r for s, r in RULES[pos] if form.endswith(s) and len(s) < len(form)}


def morphy_uninitialized(form, pos):
    """exactly: the original form under the requested pos key, plus every rule output per part of speech"""
    res = {pos: {form}}
    plist = MORPHY_POS if pos is None else ([pos] if pos in RULES else [])
    for p in plist:
        c = rule_outputs(form, p)
        if pos is None:
            c = c - {form}
        if c:
            res.setdefault(p, set()).update(c)
    return res


def morphy_initialized_bounds(form, pos, words):
    """words: [(pos, lemma, [other forms])].  Returns (must, may): per pos the lemmas that have to be returned and
    the lemmas that are allowed (all lemmas of that pos)."""
    plist = MORPHY_POS if pos is None else ([pos] if pos in RULES else [])
    must, may = {}, {}
    for p in plist:
        lemmas = {lm for pp, lm, _ in words if pp == p}
        m = set()
        if form in lemmas:
            m.add(form)
        m |= {lm for pp, lm, others in words if pp == p and form in others}
        m |= {x for x in rule_outputs(form, p) if x in lemmas}
        if m:
            must[p] = m
        may[p] = lemmas
    return must, may


class SearchModel:
    """words: [dict(key, pos, lemma, forms=[all stored forms in scope, lemma first], senses=[(sense key, synset key, synset pos)])]"""

    def __init__(self, words):
        self.words = words

    def _match(self, w, qs, norm_on, all_forms):
        stored = w['forms'] if all_forms else w['forms'][:1]
        return any(f in qs or (norm_on and normalize(f) in qs) for f in stored)

    def search(self, kind, form, pos, norm_on, all_forms, lemmatizer):
        cands = lemmatizer(form, pos) if lemmatizer else {}
        cands = {p_: fs_ for p_, fs_ in cands.items() if fs_}      # a part of speech without any form proposes nothing
        if not cands:
            cands = {pos: {form}}

        def one_pass(tr):
            out = []
            for p_, fs_ in cands.items():
                qs = {tr(f) for f in fs_}
                for w in self.words:
                    if not self._match(w, qs, norm_on, all_forms):
                        continue
                    if kind == 'words':
                        if p_ and w['pos'] != p_:
                            continue
                        out.append(w['key'])
                    elif kind == 'senses':
                        if p_ and w['pos'] != p_:
                            continue
                        out.extend(s[0] for s in w['senses'])
                    else:
                        out.extend(s[1] for s in w['senses'] if not p_ or s[2] == p_)
            return out

        res = one_pass(lambda f: f)
        if not res and norm_on:
            # the Wordnet's own normalizer (norm_on may be a callable) transforms the query of the second pass; the
            # stored normalized forms are what the default normalizer produced when the lexicon was added
            res = one_pass(norm_on if callable(norm_on) else normalize)
        return set(res)
