"""Reference model of the lexicon store: which lexicons are installed and what the query API
must report for a given selection.

Written from the property statements and the documentation, not from the implementation:
a dict of installed document models plus pure functions over them.  No SQL, no rowids.
"""

from vf.diff import Bag, Merge, SetOf, AnyOf, GroupSeq, OwnThenBorrowed, RelMap  # noqa: F401

ERR = '<<wn.Error>>'
UNRANKED = 10 ** 6


def spec_of(lex):
    return f"{lex['id']}:{lex['version']}"


def k(spec, id):
    return f'{spec}::{id}'


class Installed:
    def __init__(self, doc, order, lmfver):
        self.doc = doc
        self.order = order
        self.lmfver = lmfver
        self.spec = spec_of(doc)
        self.base = spec_of(doc['extends']) if doc.get('extends') else None
        # ids this lexicon declares as external -> they live in the (direct) base
        self.ext_ids = set()
        for e in doc.get('entries', []):
            if e.get('external'):
                self.ext_ids.add(e['id'])
            for s in e.get('senses', []):
                if s.get('external'):
                    self.ext_ids.add(s['id'])
        for ss in doc.get('synsets', []):
            if ss.get('external'):
                self.ext_ids.add(ss['id'])

    def home(self, id):
        """Owning lexicon of the entity an id of this document refers to."""
        return self.base if id in self.ext_ids else self.spec


class ModelDB:
    def __init__(self):
        self.lex = {}          # spec -> Installed, in installation order
        self.seq = 0
        self.ilis = {}         # id -> [status, definition]
        self.ili_meta = {}     # id -> metadata of the ILIDefinition that created a presupposed ILI
        self._tables = None
        # removed extensions whose base stayed installed: only used by the 'tags-unowned' quirk (their
        # tags/pronunciations on base forms have no owner and survive the removal - known finding)
        self.ghosts = []

    def order(self, owner):
        if owner in self.lex:
            return self.lex[owner].order
        for g in self.ghosts:
            if '~' + g.spec + '#%d' % g.order == owner:
                return g.order
        return 0

    # ------------------------------------------------------------------ updates
    def add_like_real(self, resource, real_specs):
        """Apply add_resource in whichever of the two admissible readings reproduces the installed set the real call
        produced: an extension whose base comes earlier *in the same resource* may be skipped (the base was not
        installed when the call started - what the pinned tree does) or added (the base is installed by then)."""
        import copy
        for lenient in (False, True):
            trial = copy.copy(self)
            trial.lex = dict(self.lex)
            trial.ilis = {k_: list(v) for k_, v in self.ilis.items()}
            trial.ili_meta = dict(self.ili_meta)
            trial.ghosts = list(self.ghosts)
            trial.add_resource(resource, lenient=lenient)
            if set(trial.lex) == set(real_specs) or lenient:
                if set(trial.lex) == set(real_specs):
                    return self.add_resource(resource, lenient=lenient)
        return self.add_resource(resource)

    def add_resource(self, resource, lenient=False):
        """Returns [(spec, outcome)] with outcome in added / skip-installed / skip-nobase."""
        before = set(self.lex)
        plan = []
        for lx in resource['lexicons']:
            sp = spec_of(lx)
            if sp in before:
                plan.append((sp, 'skip-installed'))
            elif lx.get('extends') and spec_of(lx['extends']) not in before:
                plan.append((sp, 'skip-nobase'))
            else:
                plan.append((sp, 'added'))
            if lenient and plan[-1][1] == 'added':
                before.add(sp)
        for lx, (sp, outcome) in zip(resource['lexicons'], plan):
            if outcome == 'added':
                self.seq += 1
                self.lex[sp] = Installed(lx, self.seq, resource['lmf_version'])
                for ss in lx.get('synsets', []):
                    ili = ss.get('ili')
                    if ili and ili != 'in' and not ss.get('external'):
                        if ili not in self.ilis:
                            d = ss.get('ili_definition')
                            self.ilis[ili] = ['presupposed', d['text'] if d else None]
                            self.ili_meta[ili] = (d.get('meta') or None) if d else None
        self._tables = None
        return plan

    def extensions_of(self, spec, transitive=True):
        out = [s for s, i in self.lex.items() if i.base == spec]
        if transitive:
            for s in list(out):
                out.extend(self.extensions_of(s, True))
        return out

    def bases_of(self, spec):
        out = []
        cur = self.lex[spec].base
        while cur is not None and cur in self.lex:
            out.append(cur)
            cur = self.lex[cur].base
        return out

    def remove(self, spec):
        """Remove one lexicon and (transitively) its extensions."""
        gone = [spec] + self.extensions_of(spec)
        self.ghosts = [g for g in self.ghosts if g.base not in gone]
        for s in gone:
            inst = self.lex.pop(s, None)
            if inst is not None and inst.base is not None and inst.base not in gone:
                self.ghosts.append(inst)
        self._tables = None
        return gone

    def add_ili(self, rows):
        for row in rows:
            self.ilis[row['ili']] = [row.get('status', 'active'), row.get('definition')]

    def family(self, spec):
        return [spec] + self.bases_of(spec) + self.extensions_of(spec)

    # ------------------------------------------------------------------ resolved tables
    def tables(self):
        if self._tables is None:
            self._tables = Tables(self)
        return self._tables


class Tables:
    """Everything resolved to owner-qualified identities."""

    def __init__(self, db):
        self.db = db
        self.entries = {}      # key -> dict(owner, id, pos, meta, forms=[...])
        self.senses = {}       # key -> dict(...)
        self.synsets = {}
        self.sense_rels = []   # dict(owner, src, tgt, type, meta, kind)
        self.synset_rels = []
        self.frames = []       # dict(owner, frame, sense key)
        order = sorted(db.lex.values(), key=lambda i: i.order)
        # pass 1: local entities
        for inst in order:
            doc, L = inst.doc, inst.spec
            ssrank = {}
            for ss in doc.get('synsets', []):
                if ss.get('external'):
                    continue
                for i, sid in enumerate(ss.get('members') or []):
                    ssrank[sid] = i
            inst.ssrank = ssrank
            for ss in doc.get('synsets', []):
                if ss.get('external'):
                    continue
                ili = ss.get('ili') or None
                self.synsets[k(L, ss['id'])] = dict(
                    owner=L, id=ss['id'], pos=ss.get('partOfSpeech'), ili=ili,
                    ili_def=ss.get('ili_definition'), meta=ss.get('meta') or None,
                    lexicalized=ss.get('lexicalized', True), lexfile=ss.get('lexfile') or None,
                    defs=[], examples=[], order=inst.order)
            for e in doc.get('entries', []):
                if e.get('external'):
                    continue
                lem = e['lemma']
                forms = [dict(owner=L, form=lem['writtenForm'], id=None, script=lem.get('script') or None, rank=0,
                              tags=[(L, t['text'], t['category']) for t in lem.get('tags', [])],
                              prons=[(L, _pron(p)) for p in lem.get('pronunciations', [])], fid=None)]
                for i, f in enumerate(e.get('forms', []), 1):
                    forms.append(dict(owner=L, form=f['writtenForm'], id=f.get('id') or None,
                                      script=f.get('script') or None, rank=i,
                                      tags=[(L, t['text'], t['category']) for t in f.get('tags', [])],
                                      prons=[(L, _pron(p)) for p in f.get('pronunciations', [])]))
                self.entries[k(L, e['id'])] = dict(owner=L, id=e['id'], pos=lem['partOfSpeech'],
                                                   meta=e.get('meta') or None, forms=forms, order=inst.order)
        # pass 2: senses, contributions of extensions, relations, frames
        for inst in order:
            doc, L = inst.doc, inst.spec
            sense_ids = {s['id'] for e in doc.get('entries', []) for s in e.get('senses', [])}
            for e in doc.get('entries', []):
                ekey = k(inst.home(e['id']), e['id'])
                if e.get('external'):
                    tgt = self.entries.get(ekey)
                    if tgt is not None:
                        lem = e.get('lemma')
                        if lem:
                            tgt['forms'][0]['tags'] += [(L, t['text'], t['category']) for t in lem.get('tags', [])]
                            tgt['forms'][0]['prons'] += [(L, _pron(p)) for p in lem.get('pronunciations', [])]
                        for i, f in enumerate(e.get('forms', []), 1):
                            if f.get('external'):
                                for bf in tgt['forms']:
                                    if bf['id'] == f['id']:
                                        bf['tags'] += [(L, t['text'], t['category']) for t in f.get('tags', [])]
                                        bf['prons'] += [(L, _pron(p)) for p in f.get('pronunciations', [])]
                            else:
                                tgt['forms'].append(dict(
                                    owner=L, form=f['writtenForm'], id=f.get('id') or None,
                                    script=f.get('script') or None, rank=i,
                                    tags=[(L, t['text'], t['category']) for t in f.get('tags', [])],
                                    prons=[(L, _pron(p)) for p in f.get('pronunciations', [])]))
                rank = 0
                for s in e.get('senses', []):
                    skey = k(inst.home(s['id']), s['id'])
                    if not s.get('external'):
                        self.senses[skey] = dict(
                            owner=L, id=s['id'], entry=ekey, synset=k(inst.home(s['synset']), s['synset']),
                            entry_rank=rank, synset_rank=inst.ssrank.get(s['id'], UNRANKED),
                            lexicalized=s.get('lexicalized', True), adjposition=s.get('adjposition') or None,
                            meta=s.get('meta') or None, examples=[], counts=[], order=inst.order)
                        rank += 1
            for e in doc.get('entries', []):
                for s in e.get('senses', []):
                    skey = k(inst.home(s['id']), s['id'])
                    rec = self.senses.get(skey)
                    if rec is not None:
                        rec['examples'] += [(L, x['text']) for x in s.get('examples', [])]
                        rec['counts'] += [(L, [x['value'], x.get('meta') or None]) for x in s.get('counts', [])]
                    for r in s.get('relations', []):
                        tkey = k(inst.home(r['target']), r['target'])
                        kind = 'sense' if r['target'] in sense_ids else 'synset'
                        self.sense_rels.append(dict(owner=L, src=skey, srcid=s['id'], tgt=tkey, tgtid=r['target'],
                                                    type=r['relType'], meta=r.get('meta') or None, kind=kind))
            for ss in doc.get('synsets', []):
                sskey = k(inst.home(ss['id']), ss['id'])
                rec = self.synsets.get(sskey)
                if rec is not None:
                    rec['defs'] += [(L, d['text']) for d in ss.get('definitions', [])]
                    rec['examples'] += [(L, x['text']) for x in ss.get('examples', [])]
                for r in ss.get('relations', []):
                    self.synset_rels.append(dict(owner=L, src=sskey, srcid=ss['id'],
                                                 tgt=k(inst.home(r['target']), r['target']), tgtid=r['target'],
                                                 type=r['relType'], meta=r.get('meta') or None))
            # frames
            by_id = {}
            for fr in doc.get('frames', []):
                for sid in fr.get('senses') or []:
                    self.frames.append(dict(owner=L, frame=fr['subcategorizationFrame'], sense=k(inst.home(sid), sid)))
                if fr.get('id'):
                    by_id[fr['id']] = fr['subcategorizationFrame']
            for e in doc.get('entries', []):
                for s in e.get('senses', []):
                    if s.get('external'):
                        continue
                    for fid in s.get('subcat') or []:
                        if fid in by_id:
                            self.frames.append(dict(owner=L, frame=by_id[fid], sense=k(inst.home(s['id']), s['id'])))
                if not e.get('external'):
                    allsenses = [s['id'] for s in e.get('senses', [])]
                    for fr in e.get('frames') or []:
                        for sid in (fr.get('senses') or allsenses):
                            self.frames.append(dict(owner=L, frame=fr['subcategorizationFrame'],
                                                    sense=k(inst.home(sid), sid)))
        # contributions of removed extensions to forms of a base that stayed (quirk only)
        for g in db.ghosts:
            label = '~' + g.spec + '#%d' % g.order
            for e in g.doc.get('entries', []):
                if not e.get('external'):
                    continue
                tgt = self.entries.get(k(g.base, e['id']))
                if tgt is None or tgt['order'] > g.order:
                    continue
                lem = e.get('lemma')
                if lem:
                    tgt['forms'][0]['tags'] += [(label, t['text'], t['category']) for t in lem.get('tags', [])]
                    tgt['forms'][0]['prons'] += [(label, _pron(p)) for p in lem.get('pronunciations', [])]
                for f in e.get('forms', []):
                    if f.get('external'):
                        for bf in tgt['forms']:
                            if bf['id'] == f['id'] and bf['owner'] == g.base:
                                bf['tags'] += [(label, t['text'], t['category']) for t in f.get('tags', [])]
                                bf['prons'] += [(label, _pron(p)) for p in f.get('pronunciations', [])]
        # indexes
        self.senses_by_entry = {}
        self.senses_by_synset = {}
        for skey, s in self.senses.items():
            self.senses_by_entry.setdefault(s['entry'], []).append(skey)
            self.senses_by_synset.setdefault(s['synset'], []).append(skey)
        self.synsets_by_ili = {}
        for sskey, ss in self.synsets.items():
            if ss['ili'] and ss['ili'] != 'in':
                self.synsets_by_ili.setdefault(ss['ili'], []).append(sskey)


def _pron(p):
    return [p['text'], p.get('variety') or None, p.get('notation') or None, p.get('phonemic', True),
            p.get('audio') or None]


class View:
    """What a Wordnet(lexicon=selection, expand=...) must report.

    selection: list of installed specifiers (already resolved) ; default_mode: Wordnet() without
    lexicon/lang; expand: list of installed specifiers used as expand lexicons.
    """

    def __init__(self, db, selection, default_mode=False, expand=(), quirks=()):
        self.db = db
        self.t = db.tables()
        self.sel = list(selection)
        self.default = default_mode
        self.expand = list(expand)
        # counterfactual switches used only to *classify* an observed difference under a known
        # mechanism (see known_findings.json); the property's own expectation has none of them
        self.quirks = set(quirks)

    def scope(self, owner):
        if self.default:
            return set(self.db.family(owner))
        return set(self.sel)

    def _by_owner(self, items, scope):
        """items: [(owner, value)] in document order per owner -> Merge of per-owner lists (scope only)."""
        per = {}
        for owner, val in items:
            if owner in scope:
                per.setdefault(owner, []).append(val)
        lists = [per[o] for o in sorted(per, key=self.db.order)]
        if len(lists) == 1:
            return lists[0]
        if not lists:
            return []
        return Merge(lists)

    # ---- entities
    def lexicon(self, spec):
        d = self.db.lex[spec].doc
        req = {}
        for r in d.get('requires', []) or []:
            sp = f"{r['id']}:{r['version']}"
            req[sp] = sp if sp in self.db.lex else None
        return {
            'id': d['id'], 'label': d['label'], 'language': d['language'], 'email': d['email'],
            'license': d['license'], 'version': d['version'], 'url': d.get('url') or None,
            'citation': d.get('citation') or None, 'logo': d.get('logo') or None,
            'meta': d.get('meta') or None, 'modified': False, 'requires': req,
            'extends': self.db.lex[spec].base,
            'extensions': Bag(self.db.extensions_of(spec, transitive=False)),
            'all_extensions': Bag(self.db.extensions_of(spec, transitive=True)),
        }

    def form(self, f, scope):
        if 'tags-unowned' in self.quirks:
            scope = set(self.db.lex) | {o for o, *_ in f['tags']} | {o for o, _ in f['prons']}
        return {'form': f['form'], 'id': f['id'], 'script': f['script'],
                'tags': self._by_owner([(o, [t, c]) for o, t, c in f['tags']], scope),
                'prons': self._by_owner(f['prons'], scope)}

    def word_senses(self, ekey, scope):
        per = {}
        for skey in self.t.senses_by_entry.get(ekey, []):
            s = self.t.senses[skey]
            if s['owner'] in scope:
                per.setdefault(s['owner'], []).append((s['entry_rank'], skey))
        lists = [[x[1] for x in sorted(per[o])] for o in sorted(per, key=lambda sp: self.db.lex[sp].order)]
        return lists

    def word(self, ekey):
        e = self.t.entries[ekey]
        scope = self.scope(e['owner'])
        per = {}
        fscope = set(self.db.lex) if 'ext-forms' in self.quirks else scope
        for f in e['forms']:
            if f['owner'] in fscope:
                per.setdefault(f['owner'], []).append(self.form(f, scope))
        lists = [per[o] for o in sorted(per, key=lambda sp: self.db.lex[sp].order)]
        forms = lists[0] if len(lists) == 1 else Merge(lists)
        slists = self.word_senses(ekey, scope)
        senses = (slists[0] if len(slists) == 1 else Merge(slists)) if slists else []
        d = {'pos': e['pos'], 'meta': e['meta'], 'lemma': e['forms'][0]['form'], 'forms': forms, 'senses': senses}
        flat = [x for l in slists for x in l]
        if any(self.sense_synset(s) == ERR for s in flat):
            d['synsets'] = ERR
        else:
            sl = [[self.sense_synset(s) for s in l] for l in slists]
            d['synsets'] = (sl[0] if len(sl) == 1 else Merge(sl)) if sl else []
        return d

    def _selected(self, owner):
        return True if self.default else owner in self.sel

    def _by_id(self, table, id):
        """the 'nav-by-id' quirk: first selected lexicon (installation order) having that id"""
        for sp in sorted(self.db.lex, key=lambda x: self.db.lex[x].order):
            if self._selected(sp) and k(sp, id) in table:
                return k(sp, id)
        return ERR

    def sense_word(self, skey):
        ekey = self.t.senses[skey]['entry']
        if 'nav-by-id' in self.quirks:
            return self._by_id(self.t.entries, ekey.split('::', 1)[1])
        e = self.t.entries.get(ekey)
        return ekey if e is not None and self._selected(e['owner']) else ERR

    def sense_synset(self, skey):
        sskey = self.t.senses[skey]['synset']
        if 'nav-by-id' in self.quirks:
            return self._by_id(self.t.synsets, sskey.split('::', 1)[1])
        ss = self.t.synsets.get(sskey)
        return sskey if ss is not None and self._selected(ss['owner']) else ERR

    def sense_relations(self, skey, kind):
        """[(rel dict)] of the in-scope declared relations with in-scope targets."""
        s = self.t.senses[skey]
        scope = self.scope(s['owner'])
        out = []
        table = self.t.senses if kind == 'sense' else self.t.synsets
        for r in self.t.sense_rels:
            if r['src'] != skey or r['kind'] != kind or r['owner'] not in scope:
                continue
            tgt = table.get(r['tgt'])
            if tgt is None or tgt['owner'] not in scope:
                continue
            out.append(r)
        return out

    def sense(self, skey):
        s = self.t.senses[skey]
        scope = self.scope(s['owner'])
        rels = self.sense_relations(skey, 'sense')
        ssrels = self.sense_relations(skey, 'synset')
        relnames = {}
        for r in rels:
            relnames.setdefault(r['type'], []).append(r['tgt'])
        d = {
            'word': self.sense_word(skey), 'synset': self.sense_synset(skey),
            'examples': self._by_owner(s['examples'], scope),
            'counts': self._by_owner(s['counts'], scope),
            'frames': Bag([f['frame'] for f in self.t.frames if f['sense'] == skey and f['owner'] in scope]),
            'adjposition': s['adjposition'], 'lexicalized': s['lexicalized'], 'meta': s['meta'],
            'relations': {n: SetOf(_uniq(t)) for n, t in relnames.items()},
            'related': SetOf(_uniq([r['tgt'] for r in rels])),
            'related_synsets': SetOf(_uniq([r['tgt'] for r in ssrels])),
            'relmap': RelMap([self._relrow(r) for r in rels]),
        }
        return d

    def _relrow(self, r, tgtkey=None):
        m = r['meta'] or None
        return [r['type'], r['srcid'], r['tgtid'], r['owner'], (m or {}).get('type'), m, tgtkey or r['tgt']]

    def ili_of(self, ss):
        if ss['ili'] == 'in':
            d = ss['ili_def']
            return [None, 'proposed', d['text'] if d else None]
        if ss['ili']:
            st = self.db.ilis.get(ss['ili'])
            if st is None:
                return [ss['ili'], '?', None]
            return [ss['ili'], st[0], st[1]]
        return None

    def synset_members(self, sskey, scope):
        ranked = {}
        for skey in self.t.senses_by_synset.get(sskey, []):
            s = self.t.senses[skey]
            if s['owner'] in scope:
                ranked.setdefault(s['synset_rank'], []).append(skey)
        return [ranked[r] for r in sorted(ranked)]

    def own_synset_relations(self, sskey, scope=None):
        ss = self.t.synsets[sskey]
        scope = self.scope(ss['owner']) if scope is None else scope
        out = []
        for r in self.t.synset_rels:
            if r['src'] != sskey or r['owner'] not in scope:
                continue
            tgt = self.t.synsets.get(r['tgt'])
            if tgt is None or tgt['owner'] not in scope:
                continue
            out.append(r)
        return out

    def expanded_synset_relations(self, ili, self_key, scope, types=None):
        """[(rel row, target key)] borrowed through the expand lexicons for a synset carrying ``ili``
        whose lexicon scope is ``scope`` (placeholders have self_key None)."""
        out = []
        if not ili or ili == 'in' or not self.expand:
            return out
        exp = set(self.expand)
        for src in self.t.synsets_by_ili.get(ili, []):
            if src == self_key or self.t.synsets[src]['owner'] not in exp:
                continue
            for r in self.own_synset_relations(src, exp):
                if types and r['type'] not in types:
                    continue
                tili = self.t.synsets[r['tgt']]['ili']
                if not tili or tili == 'in':
                    continue
                locals_ = [x for x in self.t.synsets_by_ili.get(tili, []) if self.t.synsets[x]['owner'] in scope]
                if locals_:
                    for x in locals_:
                        out.append((r, x))
                else:
                    out.append((r, f'*INFERRED*::{tili}'))
        return out

    def synset(self, sskey):
        ss = self.t.synsets[sskey]
        scope = self.scope(ss['owner'])
        groups = self.synset_members(sskey, scope)
        flat = [x for g in groups for x in g]
        own = self.own_synset_relations(sskey)
        exp = self.expanded_synset_relations(ss['ili'], sskey, scope)
        relnames = {}
        for r in own:
            relnames.setdefault(r['type'], [[], []])[0].append(r['tgt'])
        for r, t in exp:
            relnames.setdefault(r['type'], [[], []])[1].append(t)
        defs = [t for o, t in sorted(((o, t) for o, t in ss['defs'] if o in scope),
                                     key=lambda x: self.db.lex[x[0]].order)]
        d = {
            'pos': ss['pos'] if ss['pos'] is not None else None,
            'ili': self.ili_of(ss),
            'definition': defs[0] if defs else None,
            'examples': self._by_owner(ss['examples'], scope),
            'lexfile': ss['lexfile'], 'lexicalized': ss['lexicalized'], 'meta': ss['meta'],
            'senses': GroupSeq(groups),
            'relations': {n: OwnThenBorrowed(_uniq(a), _uniq(b)) for n, (a, b) in relnames.items()},
            'related': OwnThenBorrowed(_uniq([r['tgt'] for r in own]), _uniq([t for _, t in exp])),
            'relmap': RelMap([self._relrow(r) for r in own] + [self._relrow(r, t) for r, t in exp]),
        }
        if ss['ili'] == 'in':
            d['ili_meta'] = (ss['ili_def'] or {}).get('meta') or None
        elif ss['ili'] and ss['ili'] in self.db.ilis:
            d['ili_inv_meta'] = self.db.ili_meta.get(ss['ili'])
        if any(self.sense_word(s) == ERR for s in flat):
            d['words'] = ERR
            d['lemmas'] = ERR
        else:
            d['words'] = GroupSeq([[self.sense_word(s) for s in g] for g in groups])
            d['lemmas'] = GroupSeq([[self.t.entries[self.sense_word(s)]['forms'][0]['form'] for s in g]
                                    for g in groups])
        return d

    def observe(self, relations=True):
        obs = {'lexicons': {}, 'words': {}, 'senses': {}, 'synsets': {}}
        for sp in self.sel:
            obs['lexicons'][sp] = self.lexicon(sp)
        obs['expanded'] = sorted(set(self.expand))
        sel = set(self.sel)
        for ekey, e in self.t.entries.items():
            if e['owner'] in sel:
                obs['words'][ekey] = self.word(ekey)
        for skey, s in self.t.senses.items():
            if s['owner'] in sel:
                obs['senses'][skey] = self.sense(skey)
        for sskey, ss in self.t.synsets.items():
            if ss['owner'] in sel:
                obs['synsets'][sskey] = self.synset(sskey)
        ilis = []
        seen = set()
        for sskey, ss in self.t.synsets.items():
            if ss['owner'] not in sel:
                continue
            if ss['ili'] == 'in':
                ilis.append(self.ili_of(ss))
            elif ss['ili'] and ss['ili'] not in seen:
                seen.add(ss['ili'])
                ilis.append(self.ili_of(ss))
        obs['ilis'] = Bag(ilis)
        obs['byid'] = {}       # look-ups by identifier: the walker files only what is wrong
        if not relations:
            for kind in ('senses', 'synsets'):
                for d in obs[kind].values():
                    for f in ('relations', 'related', 'related_synsets', 'relmap'):
                        d.pop(f, None)
        return obs


def _uniq(xs):
    return list(dict.fromkeys(xs))
