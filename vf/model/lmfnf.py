"""The loader's normal form, its equivalences, and the per-version projection.

``canon(resource)`` maps a resource (as generated, as returned by ``wn.lmf.load`` or as built by
``wn.export``) to a canonical value in which the equivalences DESIGN section 8 allows are
already applied:

* metadata ``None`` == ``{}`` (dropped), ``confidenceScore`` compared as text;
* optional strings and lists: absent == empty (dropped);
* ``lexicalized`` / ``phonemic``: absent == true (only ``False`` is kept).

``project(resource, v)`` removes what LMF version *v* cannot express.
"""

import copy

OPT_STR = {
    'lexicon': ['url', 'citation', 'logo'],
    'dep': ['url'],
    'lemma': ['script'],
    'form': ['id', 'script'],
    'pron': ['variety', 'notation', 'audio'],
    'sense': ['adjposition'],
    'example': ['language'],
    'definition': ['language', 'sourceSense'],
    'synset': ['partOfSpeech', 'lexfile'],
    'frame': ['id'],
}


def _meta(m):
    if not m:
        return None
    out = {}
    for k, v in m.items():
        if v is None or v == '':
            continue
        out[k] = str(v) if k == 'confidenceScore' else v
    return out or None


def _put_meta(d, src):
    m = _meta(src.get('meta'))
    if m:
        d['meta'] = m


def _opt(d, src, keys):
    for k in keys:
        v = src.get(k)
        if v not in (None, ''):
            d[k] = v


def _form_children(d, src):
    prons = []
    for p in src.get('pronunciations') or []:
        q = {'text': p.get('text', '')}
        _opt(q, p, OPT_STR['pron'])
        if p.get('phonemic', True) is False:
            q['phonemic'] = False
        prons.append(q)
    if prons:
        d['pronunciations'] = prons
    tags = [{'text': t.get('text', ''), 'category': t['category']} for t in src.get('tags') or []]
    if tags:
        d['tags'] = tags


def _rels(d, src):
    rels = []
    for r in src.get('relations') or []:
        q = {'target': r['target'], 'relType': r['relType']}
        _put_meta(q, r)
        rels.append(q)
    if rels:
        d['relations'] = rels


def _examples(d, src):
    exs = []
    for e in src.get('examples') or []:
        q = {'text': e.get('text', '')}
        _opt(q, e, OPT_STR['example'])
        _put_meta(q, e)
        exs.append(q)
    if exs:
        d['examples'] = exs


def _frames(d, src):
    frs = []
    for f in src.get('frames') or []:
        q = {'subcategorizationFrame': f['subcategorizationFrame']}
        _opt(q, f, OPT_STR['frame'])
        if f.get('senses'):
            q['senses'] = list(f['senses'])
        frs.append(q)
    if frs:
        d['frames'] = frs


def canon_lexicon(lex):
    d = {k: lex[k] for k in ('id', 'label', 'language', 'email', 'license', 'version')}
    _opt(d, lex, OPT_STR['lexicon'])
    _put_meta(d, lex)
    if lex.get('extends'):
        e = {'id': lex['extends']['id'], 'version': lex['extends']['version']}
        _opt(e, lex['extends'], OPT_STR['dep'])
        d['extends'] = e
    reqs = []
    for r in lex.get('requires') or []:
        q = {'id': r['id'], 'version': r['version']}
        _opt(q, r, OPT_STR['dep'])
        reqs.append(q)
    if reqs:
        d['requires'] = reqs
    entries = []
    for e in lex.get('entries') or []:
        q = {'id': e['id']}
        if e.get('external'):
            q['external'] = True
        else:
            _put_meta(q, e)
        lem = e.get('lemma')
        if lem:
            if lem.get('external'):
                l2 = {'external': True}
            else:
                l2 = {'writtenForm': lem['writtenForm'], 'partOfSpeech': lem['partOfSpeech']}
                _opt(l2, lem, OPT_STR['lemma'])
            _form_children(l2, lem)
            if not (lem.get('external') and len(l2) == 1):
                q['lemma'] = l2
        forms = []
        for f in e.get('forms') or []:
            if f.get('external'):
                f2 = {'id': f['id'], 'external': True}
            else:
                f2 = {'writtenForm': f['writtenForm']}
                _opt(f2, f, OPT_STR['form'])
            _form_children(f2, f)
            forms.append(f2)
        if forms:
            q['forms'] = forms
        senses = []
        for s in e.get('senses') or []:
            s2 = {'id': s['id']}
            if s.get('external'):
                s2['external'] = True
            else:
                s2['synset'] = s['synset']
                _put_meta(s2, s)
                _opt(s2, s, OPT_STR['sense'])
                if s.get('lexicalized', True) is False:
                    s2['lexicalized'] = False
                if s.get('subcat'):
                    s2['subcat'] = list(s['subcat'])
            _rels(s2, s)
            _examples(s2, s)
            cnts = []
            for c in s.get('counts') or []:
                c2 = {'value': c['value']}
                _put_meta(c2, c)
                cnts.append(c2)
            if cnts:
                s2['counts'] = cnts
            senses.append(s2)
        if senses:
            q['senses'] = senses
        _frames(q, e)
        entries.append(q)
    if entries:
        d['entries'] = entries
    synsets = []
    for ss in lex.get('synsets') or []:
        q = {'id': ss['id']}
        if ss.get('external'):
            q['external'] = True
        else:
            q['ili'] = ss.get('ili') or ''
            _opt(q, ss, OPT_STR['synset'])
            _put_meta(q, ss)
            if ss.get('lexicalized', True) is False:
                q['lexicalized'] = False
            if ss.get('members'):
                q['members'] = list(ss['members'])
            if ss.get('ili_definition'):
                i2 = {'text': ss['ili_definition'].get('text', '')}
                _put_meta(i2, ss['ili_definition'])
                q['ili_definition'] = i2
        defs = []
        for df in ss.get('definitions') or []:
            d2 = {'text': df.get('text', '')}
            _opt(d2, df, OPT_STR['definition'])
            _put_meta(d2, df)
            defs.append(d2)
        if defs:
            q['definitions'] = defs
        _rels(q, ss)
        _examples(q, ss)
        synsets.append(q)
    if synsets:
        d['synsets'] = synsets
    _frames(d, lex)
    return d


def canon(resource):
    return {'lmf_version': resource['lmf_version'],
            'lexicons': [canon_lexicon(lx) for lx in resource['lexicons']]}


def project(resource, v):
    """What LMF version ``v`` can express of ``resource`` (a deep copy)."""
    res = copy.deepcopy(resource)
    res['lmf_version'] = v
    old = v == '1.0'
    for lex in res['lexicons']:
        if old:
            for k in ('logo', 'requires'):
                lex.pop(k, None)
            lex.pop('frames', None)
        for e in lex.get('entries', []):
            if old:
                lem = e.get('lemma')
                if lem:
                    lem.pop('pronunciations', None)
                for f in e.get('forms', []):
                    f.pop('pronunciations', None)
                    f.pop('id', None)
                for s in e.get('senses', []):
                    s.pop('subcat', None)
            else:
                e.pop('frames', None)      # entry-level frames are the 1.0 encoding
        for ss in lex.get('synsets', []):
            if old:
                ss.pop('members', None)
                ss.pop('lexfile', None)
        # (a lexicon-level frame of 1.1+ may carry an id, a senses list, or both: all of it is expressible there)
    return res


def norm_text(s):
    """The loader's white-space rule for text content."""
    return ' '.join(s.split())
