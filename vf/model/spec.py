"""Reference model of lexicon specifiers, written from docs/guides/lexicons.rst:

    *           any/all lexicons
    id          the most recently added lexicon with the given id
    id:*        all lexicons with the given id
    id:version  the lexicon with the given id and version
    *:version   all lexicons with the given version
  + star globs over 'id:version'; a space-separated list is the union; lang is an equality filter.
"""

import re


def _glob(pattern):
    return re.compile('^' + '.*'.join(re.escape(p) for p in pattern.split('*')) + '$', re.S)


def select(installed, spec, lang=None):
    """installed: [(specifier, language)] in installation order (oldest first).  Returns the selected
    specifiers as a list without duplicates (order of first selection)."""
    out = []
    for item in spec.split():
        if ':' in item or '*' in item:
            pat = item if ':' in item else item + ':*'
            rx = _glob(pat)
            hits = [s for s, lg in installed if rx.match(s) and (lang is None or lg == lang)]
        else:
            hits = [s for s, lg in installed if s.split(':', 1)[0] == item and (lang is None or lg == lang)]
            hits = hits[-1:]          # the most recently added one
        for h in hits:
            if h not in out:
                out.append(h)
    return out
