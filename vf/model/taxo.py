"""Graph-theoretic reference for the taxonomy functions (C13), similarity metrics (C14) and
information content (C15).  Plain BFS/DFS over an edge list; nothing from the library."""

import math
from fractions import Fraction

ROOT = '*ROOT*'


class G:
    def __init__(self, n, edges):
        self.n = n
        self.up = {u: [] for u in range(n)}
        self.down = {u: [] for u in range(n)}
        for u, v in edges:
            if v not in self.up[u]:
                self.up[u].append(v)
            if u not in self.down[v]:
                self.down[v].append(u)
        self._paths = {}
        self._dist = {}

    # ---- maximal simple hypernym chains from x (x itself excluded and never re-entered)
    def paths(self, x, cap=20000):
        if x in self._paths:
            return self._paths[x]
        out, count = [], 0
        stack = [([t], {x, t}) for t in self.up[x] if t != x]
        while stack:
            path, seen = stack.pop()
            count += 1
            if count > cap:
                self._paths[x] = None
                return None
            nxt = [t for t in self.up[path[-1]] if t not in seen]
            if not nxt:
                out.append(path)
            for t in nxt:
                stack.append((path + [t], seen | {t}))
        self._paths[x] = out
        return out

    def paths_sr(self, x, simulate_root):
        p = self.paths(x)
        if p is None:
            return None
        if simulate_root:
            return [q + [ROOT] for q in p] or [[ROOT]]
        return p

    def depth_min(self, x, sr=False):
        p = self.paths_sr(x, sr)
        return min((len(q) for q in p), default=0)

    def depth_max(self, x, sr=False):
        p = self.paths_sr(x, sr)
        return max((len(q) for q in p), default=0)

    def roots(self, nodes=None):
        return [u for u in (range(self.n) if nodes is None else nodes) if not self.up[u]]

    def leaves(self, nodes=None):
        return [u for u in (range(self.n) if nodes is None else nodes) if not self.down[u]]

    def anc(self, x):
        """ancestors* (reflexive-transitive closure over hypernymy)"""
        seen = {x}
        todo = [x]
        while todo:
            u = todo.pop()
            for v in self.up[u]:
                if v not in seen:
                    seen.add(v)
                    todo.append(v)
        return seen

    def dist(self, x):
        """BFS distances from x along hypernym edges"""
        if x in self._dist:
            return self._dist[x]
        d = {x: 0}
        todo = [x]
        while todo:
            nxt = []
            for u in todo:
                for v in self.up[u]:
                    if v not in d:
                        d[v] = d[u] + 1
                        nxt.append(v)
            todo = nxt
        self._dist[x] = d
        return d

    def common(self, a, b, sr=False):
        c = self.anc(a) & self.anc(b)
        return c | ({ROOT} if sr else set())

    def root_dist(self, x):
        """distance to the virtual root: it sits above the end of every maximal simple chain"""
        return self.depth_min(x, True)

    def shortest_len(self, a, b, sr=False):
        """min over common hypernyms c of dist(a,c)+dist(b,c); None when nothing is shared"""
        if a == b:
            return 0
        da, db = self.dist(a), self.dist(b)
        best = None
        for c in self.anc(a) & self.anc(b):
            v = da[c] + db[c]
            best = v if best is None or v < best else best
        if sr:
            v = self.root_dist(a) + self.root_dist(b)
            best = v if best is None or v < best else best
        return best

    def lowest_common(self, a, b, sr=False):
        """common hypernyms of greatest depth (exact on DAGs)"""
        if a == b:
            return {a}
        c = self.common(a, b, sr)
        if not c:
            return set()
        depth = {x: (0 if x == ROOT else self.depth_max(x, sr)) for x in c}
        m = max(depth.values())
        return {x for x in c if depth[x] == m}

    def acyclic(self):
        from vf.gen.graphs import is_dag
        return is_dag(self.n, [(u, v) for u in self.up for v in self.up[u]])


def valid_path(g, a, b, path):
    """path = list of nodes (ROOT allowed) from a (excluded) to b (included): consecutive nodes linked by hypernymy in
    either direction (ROOT is linked to every node that ends a maximal chain or has no hypernym)"""
    if a == b:
        return path == []
    if not path or path[-1] != b:
        return False
    prev = a
    for x in path:
        if x == ROOT or prev == ROOT:
            pass  # adjacency to the virtual root is not checked structurally
        elif x not in g.up[prev] and prev not in g.up[x]:
            return False
        prev = x
    return True


# ---------------------------------------------------------------- information content
def ic_weights(g, pos_of, word_synsets, corpus_counts, distribute, smoothing):
    """exact rational weights: freq[pos][node|None]; pos 's' is filed under 'a';
    word_synsets: {word: [nodes]} ; corpus_counts: {word: count}"""
    freq = {p: {None: Fraction(smoothing)} for p in ('n', 'v', 'a', 'r')}
    for u in range(g.n):
        p = 'a' if pos_of(u) == 's' else pos_of(u)
        if p in freq:
            freq[p][u] = Fraction(smoothing)
    for word, count in corpus_counts.items():
        nodes = word_synsets.get(word, [])
        if not nodes:
            continue
        w = Fraction(count, len(nodes)) if distribute else Fraction(count)
        for u in nodes:
            p = 'a' if pos_of(u) == 's' else pos_of(u)
            if p not in freq:
                continue
            freq[p][None] += w
            for x in g.anc(u):
                freq[p][x] += w
    return freq


def log_ratio(num, den):
    return -math.log(num / den)
