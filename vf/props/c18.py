"""C18 - the validator always produces a report and each check is exact.

Generated non-extension lexicons, valid and broken (single and combined corruptions: duplicate ids of every kind incl.
form/frame/lexicon ids, dangling synset and relation references incl. a hypernym to a missing synset, empty synsets and
entries, repeated / proposed-without-definition / spurious ILIs, blank and repeated definitions and examples, self-loops,
redundant relations with and without dc:type, non-reciprocated relations, part-of-speech clashes, invalid relation types)
x selections (every single code, E, W, random subsets, empty).  validate() must return (never raise), report exactly the
selected codes with the documented message, and every check's item keys must satisfy must <= reported <= must | may
(vf.model.validate).  A lexicon with E204/E401 items must be rejected by add_lexical_resource; the CLI exit status must be
0 iff nothing is reported.
"""

import copy
import random
import subprocess
import sys

from vf import env, wnio
from vf.gen import doc
from vf.model import validate as mv

RULE = ('one evaluation = one (lexicon, selection) pair; lexicons are generated and then corrupted 0-6 times; distinct = lexicon hash + '
        'selection; non-trivial = at least one selected check has a non-empty must-set')
ASSUMPTIONS = ['item keys are compared; context fields are only required to be mappings',
               'where duplicated identifiers make "the entity" ambiguous the must-set shrinks and the may-set grows (appendix A)']
FLOORS = {'*': {'report.compared': 3000, 'check.nonempty-must': 3000, 'add.rejected': 20, 'cli.compared': 4, 'cli.exit0-expected': 4}}
N = {'quick': 160, 'thorough': 4000}


def plan(tier, seed):
    return [{'seed': seed * 1000003 + i, 'cli': i % 16 == 0} for i in range(N[tier])]


def corrupt(lex, r):
    """apply one random corruption in place; returns its name"""
    entries = lex.get('entries') or []
    synsets = lex.get('synsets') or []
    senses = [(e, s) for e in entries for s in e.get('senses') or []]
    kinds = ['dup-entry-id', 'dup-sense-id', 'dup-synset-id', 'form-id-clash', 'frame-id-clash', 'lexicon-id-clash',
             'dangling-sense-synset', 'dangling-synset-rel', 'dangling-hypernym', 'dangling-sense-rel', 'entry-without-senses',
             'empty-synset', 'redundant-sense', 'redundant-entry', 'repeated-ili', 'proposed-no-def', 'spurious-ili-def',
             'blank-ili-def', 'blank-definition', 'blank-example', 'repeated-definition', 'repeated-definition-same-synset',
             'self-loop', 'redundant-relation', 'redundant-relation-dctype', 'unreciprocated', 'reciprocated', 'pos-clash',
             'pos-missing-hypernym', 'instance-hypernym-clash', 'invalid-synset-reltype', 'invalid-sense-reltype',
             'invalid-sense-synset-reltype', 'sense-synset-id-shared', 'synset-rel-to-sense-id', 'sense-rel-to-entry-id']
    k = r.choice(kinds)
    try:
        if k == 'dup-entry-id' and len(entries) >= 1:
            e = copy.deepcopy(r.choice(entries))
            if r.random() < 0.5:
                e.pop('senses', None)
            entries.append(e)
        elif k == 'dup-sense-id' and len(senses) >= 2:
            a, b = r.sample(senses, 2)
            b[1]['id'] = a[1]['id']
        elif k == 'dup-synset-id' and len(synsets) >= 2:
            a, b = r.sample(synsets, 2)
            b['id'] = a['id']
        elif k == 'form-id-clash' and entries:
            e = r.choice(entries)
            e.setdefault('forms', []).append({'writtenForm': 'clash', 'id': r.choice(entries)['id']})
        elif k == 'frame-id-clash' and synsets:
            lex.setdefault('frames', []).append({'id': r.choice(synsets)['id'], 'subcategorizationFrame': 'x ' + str(r.random())})
        elif k == 'lexicon-id-clash' and entries:
            r.choice(entries)['id'] = lex['id']
        elif k == 'dangling-sense-synset' and senses:
            r.choice(senses)[1]['synset'] = 'no-such-synset'
        elif k == 'dangling-synset-rel' and synsets:
            r.choice(synsets).setdefault('relations', []).append({'target': 'missing-ss', 'relType': r.choice(['similar', 'also', 'hyponym']), 'meta': None})
        elif k == 'dangling-hypernym' and synsets:
            r.choice(synsets).setdefault('relations', []).append({'target': 'missing-hyper', 'relType': 'hypernym', 'meta': None})
        elif k == 'dangling-sense-rel' and senses:
            r.choice(senses)[1].setdefault('relations', []).append({'target': 'missing-s', 'relType': 'antonym', 'meta': None})
        elif k == 'entry-without-senses' and entries:
            r.choice(entries).pop('senses', None)
        elif k == 'empty-synset':
            synsets.append({'id': f'empty{r.randrange(1000)}', 'ili': '', 'partOfSpeech': 'n', 'meta': None})
            lex['synsets'] = synsets
        elif k == 'redundant-sense' and senses:
            e, s = r.choice(senses)
            s2 = copy.deepcopy(s)
            s2['id'] = s['id'] + '-again'
            e['senses'].append(s2)
        elif k == 'redundant-entry' and senses:
            e, s = r.choice(senses)
            e2 = {'id': e['id'] + '-twin', 'meta': None, 'lemma': dict(e['lemma']),
                  'senses': [{'id': s['id'] + '-twin', 'synset': s['synset'], 'meta': None}]}
            entries.append(e2)
        elif k == 'repeated-ili' and len(synsets) >= 2:
            a, b = r.sample(synsets, 2)
            a['ili'] = b['ili'] = 'i77'
        elif k == 'proposed-no-def' and synsets:
            ss = r.choice(synsets)
            ss['ili'] = 'in'
            ss.pop('ili_definition', None)
        elif k == 'spurious-ili-def' and synsets:
            ss = r.choice(synsets)
            ss['ili'] = 'i5'
            ss['ili_definition'] = {'text': 'spurious', 'meta': None}
        elif k == 'blank-ili-def' and synsets:
            ss = r.choice(synsets)
            ss['ili'] = r.choice(['in', 'i6'])
            ss['ili_definition'] = {'text': r.choice(['', ' ']), 'meta': None}
        elif k == 'blank-definition' and synsets:
            r.choice(synsets).setdefault('definitions', []).append({'text': r.choice(['', ' ', '  ']), 'meta': None})
        elif k == 'blank-example' and synsets:
            r.choice(synsets).setdefault('examples', []).append({'text': r.choice(['', ' ']), 'meta': None})
        elif k == 'repeated-definition' and len(synsets) >= 2:
            a, b = r.sample(synsets, 2)
            for x in (a, b):
                x.setdefault('definitions', []).append({'text': 'the same words', 'meta': None})
        elif k == 'repeated-definition-same-synset' and synsets:
            ss = r.choice(synsets)
            for _ in range(2):
                ss.setdefault('definitions', []).append({'text': 'said twice', 'meta': None})
        elif k == 'self-loop' and (synsets or senses):
            if senses and r.random() < 0.5:
                s = r.choice(senses)[1]
                s.setdefault('relations', []).append({'target': s['id'], 'relType': 'also', 'meta': None})
            elif synsets:
                ss = r.choice(synsets)
                ss.setdefault('relations', []).append({'target': ss['id'], 'relType': 'similar', 'meta': None})
        elif k in ('redundant-relation', 'redundant-relation-dctype') and synsets:
            ss = r.choice(synsets)
            meta = {'type': 'sub'} if k.endswith('dctype') else None
            rel = {'target': r.choice(synsets)['id'], 'relType': 'also', 'meta': meta}
            ss.setdefault('relations', []).extend([rel, copy.deepcopy(rel)])
            if k.endswith('dctype') and r.random() < 0.5:
                ss['relations'][-1]['meta'] = {'type': 'other-sub'}    # differs in dc:type only: not redundant
        elif k in ('unreciprocated', 'reciprocated') and len(synsets) >= 2:
            a, b = r.sample(synsets, 2)
            a.setdefault('relations', []).append({'target': b['id'], 'relType': 'hypernym', 'meta': None})
            if k == 'reciprocated':
                b.setdefault('relations', []).append({'target': a['id'], 'relType': 'hyponym', 'meta': None})
        elif k in ('pos-clash', 'pos-missing-hypernym', 'instance-hypernym-clash') and len(synsets) >= 2:
            a, b = r.sample(synsets, 2)
            a['partOfSpeech'] = 'n'
            if k == 'pos-missing-hypernym':
                b.pop('partOfSpeech', None)
            else:
                b['partOfSpeech'] = 'v'
            a.setdefault('relations', []).append({'target': b['id'], 'relType': 'instance_hypernym' if k.startswith('instance') else 'hypernym', 'meta': None})
        elif k == 'invalid-synset-reltype' and len(synsets) >= 1:
            r.choice(synsets).setdefault('relations', []).append({'target': r.choice(synsets)['id'], 'relType': r.choice(['derivation', 'bogus']), 'meta': None})
        elif k == 'invalid-sense-reltype' and len(senses) >= 1:
            r.choice(senses)[1].setdefault('relations', []).append({'target': r.choice(senses)[1]['id'], 'relType': r.choice(['hypernym', 'bogus']), 'meta': None})
        elif k == 'invalid-sense-synset-reltype' and senses and synsets:
            r.choice(senses)[1].setdefault('relations', []).append({'target': r.choice(synsets)['id'], 'relType': r.choice(['antonym', 'bogus']), 'meta': None})
        elif k == 'synset-rel-to-sense-id' and senses and synsets:
            r.choice(synsets).setdefault('relations', []).append({'target': r.choice(senses)[1]['id'], 'relType': 'also', 'meta': None})
        elif k == 'sense-rel-to-entry-id' and senses and entries:
            r.choice(senses)[1].setdefault('relations', []).append({'target': r.choice(entries)['id'], 'relType': 'also', 'meta': None})
        elif k == 'sense-synset-id-shared' and senses and synsets:
            r.choice(senses)[1]['id'] = r.choice(synsets)['id']
        else:
            return None
    except (KeyError, IndexError):
        return None
    return k


def run_case(case, rec):
    import wn
    from wn import lmf
    from wn.validate import validate
    from wn import constants as C
    r = random.Random(case['seed'])
    v = r.choice(doc.LMF_VERSIONS)
    prof = doc.Profile(max_entries=5, max_synsets=5, dup_rel=0.2, max_rel=3, hostile=0.1, frames='auto')
    lex = doc.gen_lexicon(r, v, 'val', '1', prof)
    applied = []
    for _ in range(r.choice([0, 1, 1, 2, 3, 6])):
        k = corrupt(lex, r)
        if k:
            applied.append(k)
            rec.event('corruption.' + k)
    res = {'lmf_version': v, 'lexicons': [lex]}
    # REVERSE_RELATIONS must be an involution over its keys
    rev = C.REVERSE_RELATIONS
    bad = [k_ for k_, x in rev.items() if rev.get(x) != k_]
    if bad:
        rec.violation('reverse-relations-not-involution', f'REVERSE_RELATIONS is not an involution: {bad[:5]}')
    consts = (C.SENSE_RELATIONS, C.SENSE_SYNSET_RELATIONS, C.SYNSET_RELATIONS, rev)
    work = env.mkdtemp('c18')
    try:
        path = wnio.write_resource(res, work, random.Random(case['seed'] + 1))
        # what load() returns (normal form) - validate works on that
        try:
            loaded = lmf.load(path, progress_handler=None)['lexicons'][0]
        except Exception as exc:
            rec.event('load.rejected')
            return
        bounds = mv.bounds(loaded, consts)
        selections = [[c] for c in mv.CODES] + [['E'], ['W'], ['E', 'W'], [], r.sample(mv.CODES, 3), ['E', r.choice(mv.CODES)], ['X'], ['E1']]
        full = None
        for sel in selections:
            want_codes = mv.select_codes(sel)
            snapshot = copy.deepcopy(loaded)
            try:
                rep = validate(loaded, select=sel, progress_handler=None)
            except Exception as exc:
                import traceback
                tb = traceback.format_exc()
                key = 'validate-raised:' + type(exc).__name__
                if isinstance(exc, KeyError) and '_hypernym_wrong_pos' in tb:
                    key = 'validate-keyerror-missing-hypernym'
                rec.violation(key, f'validate(select={sel}) raised {type(exc).__name__}: {exc} on a lexicon with corruptions {applied}',
                              {'corruptions': applied, 'select': sel})
                continue
            rec.event('report.compared')
            rec.call('validate')
            if loaded != snapshot:
                rec.violation('validate-mutates', f'validate(select={sel}) modified the lexicon')
                loaded = snapshot
            if list(rep) != want_codes:
                rec.violation('report-codes', f'validate(select={sel}) reports {list(rep)}, selected {want_codes}')
                continue
            nonempty = False
            for code in want_codes:
                entry = rep[code]
                if entry.get('message') != mv.MESSAGES[code]:
                    rec.violation('report-message', f'{code}: message {entry.get("message")!r}')
                items = entry.get('items')
                if not isinstance(items, dict) or not all(isinstance(x, dict) for x in items.values()):
                    rec.violation('report-shape', f'{code}: items is not a mapping of mappings')
                    continue
                must, may = bounds[code]
                got = set(items)
                if must:
                    nonempty = True
                    rec.event('check.nonempty-must')
                    rec.event('check.nonempty.' + code)
                if not must <= got:
                    rec.violation(f'check-misses:{code}', f'{code} ({mv.MESSAGES[code]}): misses {sorted(must - got)[:4]} (reported {sorted(got)[:6]}); '
                                  f'corruptions {applied}', {'code': code, 'corruptions': applied})
                elif not got <= (must | may):
                    rec.violation(f'check-spurious:{code}', f'{code} ({mv.MESSAGES[code]}): spurious {sorted(got - must - may)[:4]}; corruptions {applied}',
                                  {'code': code, 'corruptions': applied})
            if sel == ['E', 'W']:
                full = rep
            rec.done([doc.canonical_hash(loaded), sel], nontrivial=nonempty,
                     sample={'corruptions': applied, 'select': sel, 'reported': {c: sorted(rep[c]['items'])[:3] for c in want_codes if rep[c]['items']}})
        # E204 / E401 => add must reject
        if bounds['E204'][0] or bounds['E401'][0]:
            with env.FreshDB():
                try:
                    wn.add_lexical_resource(copy.deepcopy({'lmf_version': v, 'lexicons': [loaded]}), progress_handler=None)
                    rec.violation('add-accepts-dangling', f'add_lexical_resource accepted a lexicon with E204/E401 items ({applied})')
                except Exception:
                    rec.event('add.rejected')
        # CLI exit status
        if case['cli'] and full is not None:
            p = subprocess.run([sys.executable, '-m', 'wn', 'validate', str(path)], capture_output=True, text=True, timeout=120)
            rec.event('cli.compared')
            rec.call('python -m wn validate')
            clean = not any(full[c]['items'] for c in full)
            if (p.returncode == 0) != clean:
                rec.violation('cli-exit-status', f'python -m wn validate exits {p.returncode} although the report is {"empty" if clean else "not empty"}; '
                              f'stderr {p.stderr[-300:]}')
            # a file with several lexicons: the exit status is 0 iff *every* report is empty
            good = doc.gen_lexicon(random.Random(5), v, 'good', '1', doc.Profile(relations=False, max_entries=1, max_synsets=1, hostile=0, ili='none',
                                                                                 p_opt=0, blank_text=0, members=0))
            for e in good.get('entries', []):
                e.setdefault('senses', [{'id': e['id'] + '-s', 'synset': good['synsets'][0]['id'], 'meta': None}])
            good_rep = validate(copy.deepcopy(good), progress_handler=None)
            good_clean = not any(good_rep[c]['items'] for c in good_rep)
            # exit status 0 is reachable: the good lexicon alone, and this lexicon restricted to checks it passes
            gp = wnio.write_resource({'lmf_version': v, 'lexicons': [good]}, work, random.Random(9), name='good.xml')
            p = subprocess.run([sys.executable, '-m', 'wn', 'validate', str(gp)], capture_output=True, text=True, timeout=120)
            rec.event('cli.compared')
            if good_clean:
                rec.event('cli.exit0-expected')
            if (p.returncode == 0) != good_clean:
                rec.violation('cli-exit-status', f'python -m wn validate on a lexicon whose report is {"empty" if good_clean else "not empty"} exits '
                              f'{p.returncode}; stdout {p.stdout[-200:]} stderr {p.stderr[-200:]}')
            passed = [c for c in full if not full[c]['items']]
            failed = [c for c in full if full[c]['items']]
            for codes, want0 in ((passed[:3], True), (passed[:2] + failed[:1], not failed)):
                if not codes:
                    continue
                p = subprocess.run([sys.executable, '-m', 'wn', 'validate', '--select', ', '.join(codes), str(path)],
                                   capture_output=True, text=True, timeout=120)
                rec.event('cli.compared')
                if want0:
                    rec.event('cli.exit0-expected')
                if (p.returncode == 0) != want0:
                    rec.violation('cli-exit-status', f'python -m wn validate --select {codes} exits {p.returncode}, expected '
                                  f'{"0" if want0 else "non-zero"} (checks with items: {failed}); stderr {p.stderr[-200:]}')
            for order in ([lex, good], [good, lex]):
                mp = wnio.write_resource({'lmf_version': v, 'lexicons': order}, work, random.Random(9), name='multi.xml')
                try:
                    lmf.load(mp, progress_handler=None)
                except Exception:
                    continue
                p = subprocess.run([sys.executable, '-m', 'wn', 'validate', str(mp)], capture_output=True, text=True, timeout=120)
                rec.event('cli.compared')
                if (p.returncode == 0) != (clean and good_clean):
                    rec.violation('cli-exit-status', f'python -m wn validate on a file with lexicons {[x["id"] for x in order]} exits {p.returncode}; '
                                  f'reports empty: {[clean if x is lex else good_clean for x in order]}')
    finally:
        env.rmtree(work)
