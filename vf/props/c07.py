"""C07 - the way a resource is supplied does not change what gets stored.

Each generated resource is supplied through every route (plain file, .gz, .xz, package directory, collection,
tar / tar.gz / tar.xz of file, package and collection, in-memory resource); every route starts from an empty
database.  Logical table dumps (with rowids) must be identical between routes that keep the lexicon order,
per-lexicon observations identical for all; a second add changes nothing; inputs are never modified; no
temporary file survives; nothing allocated inside wn/ leaks (ResourceWarning + tracemalloc).
"""

import copy
import gzip
import hashlib
import lzma
import random
import tarfile

from vf import env, wnio, dbdump, xmlw
from vf.diff import diff, fmt
from vf.gen import doc
from vf.model.db import ModelDB
from vf.monitors import auditfs
from vf.obscheck import compare, norm_path, canon_real
from vf.observe import observe

RULE = ('one case = one generated resource supplied through every applicable route (11-14 routes), each on an empty '
        'database, followed by the same route again and by a different route on top; distinct = document hash + route; '
        'non-trivial = the route stored at least one lexicon (or, for extension-without-base cases, was checked to store none)')
ASSUMPTIONS = ['collections contain mutually independent packages (property quantifier); their directory order is not controlled, '
               'so only per-lexicon observations are compared for collection routes']
FLOORS = {'*': {'route.compared': 100, 'readd.unchanged': 50, 'inmemory.unmodified': 10}}
N = {'quick': 32, 'thorough': 800}
PYFLAGS = ['-X', 'dev']


def plan(tier, seed):
    return [{'seed': seed * 1000003 + i, 'lmfver': doc.LMF_VERSIONS[i % 4], 'orphan_ext': i % 8 == 7} for i in range(N[tier])]


def sha(p):
    return hashlib.sha256(p.read_bytes()).hexdigest()


def tree_sha(d):
    out = {}
    for p in sorted(d.rglob('*')):
        if p.is_file():
            out[str(p.relative_to(d))] = sha(p)
    return out


def make_tar(src, dest, mode):
    with tarfile.open(dest, mode) as tar:
        tar.add(src, arcname=src.name)


def run_case(case, rec):
    import wn
    from wn import lmf
    r = random.Random(case['seed'])
    v = case['lmfver']
    prof = doc.Profile(max_entries=4, max_synsets=4, frames='senses' if (case['seed'] % 5 == 0 and v != '1.0') else 'auto')
    if case['orphan_ext'] and v != '1.0':
        base = doc.gen_lexicon(r, v, 'ghost', '1', prof)
        lexs = [doc.gen_lexicon(r, v, 'orph', '1', prof, base=base)]
        if r.random() < 0.5:
            lexs.append(doc.gen_lexicon(r, v, 'plain', '1', prof))
        res = {'lmf_version': v, 'lexicons': lexs}
    else:
        res = doc.gen_resource(r, lmfver=v, profile=prof, ext_p=0.25)
    specs = [f"{lx['id']}:{lx['version']}" for lx in res['lexicons']]
    independent = not any(lx.get('extends') for lx in res['lexicons'])
    h = doc.canonical_hash(res)
    work = env.mkdtemp('c07')
    try:
        data = xmlw.dumps(res, random.Random(case['seed'] + 1))
        inputs = work / 'inputs'
        inputs.mkdir()
        routes = {}
        f_xml = inputs / 'res.xml'
        f_xml.write_bytes(data)
        routes['xml'] = f_xml
        f_odd = inputs / 'odd name é 猫'
        f_odd.write_bytes(data)
        routes['xml-odd-name'] = f_odd
        f_gz = inputs / 'res.xml.gz'
        f_gz.write_bytes(gzip.compress(data))
        routes['gz'] = f_gz
        f_xz = inputs / 'res.xml.xz'
        f_xz.write_bytes(lzma.compress(data))
        routes['xz'] = f_xz
        # compressed content under a name that does not say so (recognised by signature, not by suffix)
        f_gzx = inputs / 'compressed-gz.xml'
        f_gzx.write_bytes(gzip.compress(data))
        routes['gz-named-xml'] = f_gzx
        f_xzx = inputs / r.choice(['compressed-xz.xml', 'compressed-xz.XML', 'compressed-xz'])
        f_xzx.write_bytes(lzma.compress(data))
        routes['xz-named-xml'] = f_xzx
        pkg = inputs / 'pkg' / 'mypackage'
        pkg.mkdir(parents=True)
        (pkg / r.choice(['wordnet.xml', 'wordnet.lmf', 'WORDNET', 'wn.xml.txt'])).write_bytes(data)
        (pkg / 'README.md').write_text('readme')
        (pkg / 'LICENSE').write_text('license')
        (pkg / 'citation.bib').write_text('@misc{x}')
        (pkg / 'notes.txt').write_text('not a resource')
        (pkg / 'logo.png').write_bytes(b'\x89PNG\r\n\x1a\n\x00\x00\x00\rIHDR\xff\xfe\x80\x81 not utf-8 \xe9\xe8')
        (pkg / 'LISEZMOI.txt').write_bytes('r\xe9sum\xe9 en latin-1'.encode('latin-1'))
        routes['package'] = pkg
        # a package directory whose resource file is a symbolic link (annexed / stowed data), and a link to a plain file
        lpkg = inputs / 'lpkg' / 'linkedpackage'
        lpkg.mkdir(parents=True)
        (lpkg / 'wordnet.xml').symlink_to(f_xml)
        (lpkg / 'LICENSE').write_text('license')
        routes['package(symlinked file)'] = lpkg
        f_link = inputs / 'link-to-res.xml'
        f_link.symlink_to(f_gz)
        routes['symlink-to-gz'] = f_link
        for name, mode in (('tar', 'w'), ('tar.gz', 'w:gz'), ('tar.xz', 'w:xz')):
            t = inputs / f'file.{name}'
            make_tar(f_xml, t, mode)
            routes[f'{name}(file)'] = t
            t = inputs / f'package.{name}'
            make_tar(pkg, t, mode)
            routes[f'{name}(package)'] = t
        # an archive whose only member is a compressed resource file
        t = inputs / 'gzfile.tar'
        make_tar(f_gz, t, 'w')
        routes['tar(gz file)'] = t
        t = inputs / 'xzfile.tar.gz'
        make_tar(f_xz, t, 'w:gz')
        routes['tar.gz(xz file)'] = t
        coll = None
        if independent and len(res['lexicons']) > 1:
            coll = inputs / 'coll' / 'mycollection'
            coll.mkdir(parents=True)
            (coll / 'README.md').write_text('collection readme')
            for i, lx in enumerate(res['lexicons']):
                d = coll / f'p{i}'
                d.mkdir()
                (d / r.choice([f'lex{i}.xml', f'lex{i}.lmf', f'lex{i}'])).write_bytes(xmlw.dumps({'lmf_version': v, 'lexicons': [lx]}, random.Random(i)))
                (d / 'LICENSE.txt').write_text('x')
            routes['collection'] = coll
            t = inputs / 'collection.tar.gz'
            make_tar(coll, t, 'w:gz')
            routes['tar.gz(collection)'] = t
            t = inputs / 'collection-dot.tar'
            with tarfile.open(t, 'w') as tar:            # member names as `tar -cf x.tar ./mycollection` writes them
                tar.add(coll, arcname='./' + coll.name)
            routes['tar(./collection)'] = t
        t = inputs / 'package-dot.tar.xz'
        with tarfile.open(t, 'w:xz') as tar:
            tar.add(pkg, arcname='./' + pkg.name)
        routes['tar.xz(./package)'] = t
        routes['in-memory'] = None

        before_inputs = tree_sha(inputs)
        m = ModelDB()
        m.add_resource(res)
        m_lenient = ModelDB()
        m_lenient.add_resource(res, lenient=True)
        ref_dump = None
        ref_obs = None
        names = list(routes)
        for name in names:
            src = routes[name]
            with env.FreshDB() as fdb:
                with auditfs.watch() as fs:
                    if src is None:
                        resource = lmf.load(f_xml, progress_handler=None)
                        snapshot = copy.deepcopy(resource)
                        wn.add_lexical_resource(resource, progress_handler=None)
                        rec.call('wn.add_lexical_resource')
                        if resource != snapshot:
                            d = diff(snapshot, resource)
                            rec.violation('in-memory-resource-modified', 'add_lexical_resource modified its argument: ' + fmt(d))
                        else:
                            rec.event('inmemory.unmodified')
                    else:
                        wnio.add(src)
                        rec.call('wn.add')
                env.close_pool()
                rec.event('route.' + name)
                bad_writes = [p for p in fs.writes if p.startswith(str(inputs))]
                if bad_writes:
                    rec.violation('input-opened-for-writing', f'route {name}: {bad_writes[:3]}')
                if fs.leftover:
                    rec.violation('temp-file-left-behind', f'route {name}: {fs.leftover[:3]}')
                for msg, where in fs.resource_warnings:
                    rec.violation('resource-leak', f'route {name}: {msg} allocated at {where}')
                rec.event('fs.opens', fs.opens)
                rec.event('fs.temps', len(fs.temps))
                env.use_db_dir(fdb.dir)
                dump1 = dbdump.dump(fdb.path)
                have = sorted(lx.specifier() for lx in wn.lexicons())
                if have != sorted(m.lex) and have == sorted(m_lenient.lex):
                    m = m_lenient        # the other admissible reading: a base earlier in the same resource counts as installed
                if have != sorted(m.lex):
                    rec.violation('installed-set', f'route {name}: installed {have}, model {sorted(m.lex)}')
                    continue
                for key, msg in dbdump.audit(fdb.path):
                    rec.violation('audit:' + key, f'route {name}: {msg}')
                obs = {sp: canon_real(observe(wnio.wordnet([sp]), rec)) for sp in sorted(m.lex)}
                if ref_dump is None:
                    ref_dump, ref_obs = dump1, obs
                    for sp in sorted(m.lex):
                        compare(rec, m, [sp] + m.bases_of(sp), label='C07 route xml')
                else:
                    rec.event('route.compared')
                    if 'collection' not in name:
                        if dump1 != ref_dump:
                            rec.violation('route-differs', f'route {name} stores something else than route xml: '
                                          + str(dbdump.first_difference(ref_dump, dump1)))
                    if 'collection' in name:
                        # packages of a collection are added in directory order: status/definition of a shared
                        # ILI come from whichever lexicon introduced it first (ILI inventory, cross-lexicon order)
                        d = diff(_mask_ili(ref_obs), _mask_ili(obs))
                    else:
                        d = diff(ref_obs, obs)
                    if d:
                        rec.violation('route-differs:' + norm_path(d[0]), f'route {name} vs xml: ' + fmt(d))
                # the same route again, then another route on top: nothing may change
                # (a resource holding a base and its extension installs the extension on the second add - by design;
                #  then the third add must change nothing)
                for again in range(2):
                    if src is None:
                        wn.add_lexical_resource(lmf.load(f_xml, progress_handler=None), progress_handler=None)
                    else:
                        wnio.add(src)
                    m2 = ModelDB()
                    for _ in range(again + 2):
                        m2.add_resource(res)
                    have = sorted(lx.specifier() for lx in wn.lexicons())
                    if have != sorted(m2.lex) and have != sorted(m_lenient.lex):
                        rec.violation('installed-set', f'route {name}, add #{again + 2}: installed {have}, model {sorted(m2.lex)}')
                        break
                    dump2 = dbdump.dump(fdb.path)
                    if sorted(m2.lex) == sorted(ModelDB_lex_after(res, again + 1)):
                        if dump2 != dump1:
                            rec.violation('readd-changes-database', f'route {name}: adding installed lexicons again changed the database: '
                                          + str(dbdump.first_difference(dump1, dump2)))
                        else:
                            rec.event('readd.unchanged')
                    dump1 = dump2
                other = routes[names[(names.index(name) + 3) % len(names)]]
                if other is not None and 'collection' not in name:
                    wnio.add(other)
                    dump3 = dbdump.dump(fdb.path)
                    m3 = ModelDB()
                    for _ in range(4):
                        m3.add_resource(res)
                    if sorted(m3.lex) == sorted(ModelDB_lex_after(res, 3)) and dump3 != dump1:
                        rec.violation('readd-changes-database', f'route {name} then another route: database changed: '
                                      + str(dbdump.first_difference(dump1, dump3)))
                    else:
                        rec.event('readd.other-route')
                if not m.lex:
                    rec.event('orphan-extension.skipped')
                    if any(len(rows) for t, rows in dump1.items() if t in dbdump.OWNED + ['lexicons']):
                        rec.violation('orphan-extension-partially-added', f'route {name}: rows stored for an extension without base')
                rec.done(h + name, nontrivial=True if (m.lex or case['orphan_ext']) else False)
        after_inputs = tree_sha(inputs)
        if after_inputs != before_inputs:
            changed = [k for k in set(before_inputs) | set(after_inputs) if before_inputs.get(k) != after_inputs.get(k)]
            rec.violation('input-modified', f'input files changed or appeared: {changed[:4]}')
        else:
            rec.event('inputs.unmodified')
        rec.state(sorted(m.lex))
        if len(rec.samples) < 2:
            rec.samples.append({'lmf_version': v, 'lexicons': specs, 'routes': names})
    finally:
        env.rmtree(work)


def ModelDB_lex_after(res, n):
    m = ModelDB()
    for _ in range(n):
        m.add_resource(res)
    return m.lex


def _mask_ili(obs_by_spec):
    import copy
    out = copy.deepcopy(obs_by_spec)
    for o in out.values():
        for d in o['synsets'].values():
            if isinstance(d, dict) and d.get('ili') and d['ili'][0] is not None:
                d['ili'] = [d['ili'][0]]
                d.pop('ili_inv_meta', None)
        o['ilis'] = sorted(([i[0]] if i and i[0] is not None else i for i in o['ilis']), key=str)
    return out
