"""C10 - navigation between words, senses and synsets is referentially faithful.

Workload: universes with 3 versions of one lexicon id, extensions whose senses attach to base entries and base synsets,
unrelated lexicons with the same identifiers, several synsets per ILI; selections: default mode, single lexicon,
several lexicons, lang.  Monitors:
  * the observation walk compared with the reference model (sense.word / sense.synset are the declared parent and
    the referenced synset; inverse navigations agree; images keep order);
  * identity filing: every entity object the walk touches is filed under its model identity; objects of one identity
    must be pairwise == with equal hash and collapse in a set, objects of different identities must be !=;
  * translate(): synset / sense / word translation against the model, and symmetry.
"""

import itertools
import random

from vf import env, wnio
from vf.diff import diff, fmt, SetOf
from vf.gen import universe
from vf.model.db import ModelDB, View
from vf.model import spec as mspec
from vf.obscheck import compare

RULE = ('one case = one universe (9-10 lexicons installed in random admissible order) x 5 selections (default, single, '
        'several, lang, extension+base); distinct = universe seed + selection; non-trivial = at least two lexicons with '
        'colliding identifiers are both selected, or an extension is selected with its base')
ASSUMPTIONS = ['when the declared word/synset of a sense lies outside a restricted selection, wn.Error is the accepted outcome (C04 forbids returning it)']
FLOORS = {'*': {'identity.objects': 3000, 'identity.pairs': 2000, 'translate.compared': 300}}
N = {'quick': 40, 'thorough': 1500}
QUIRKS = {'nav-by-id': 'sense-nav-by-id', 'tags-unowned': None, 'ext-forms': None}   # the last two are C04's


def plan(tier, seed):
    return [{'seed': seed * 1000003 + i} for i in range(N[tier])]


class Identity:
    def __init__(self, rec):
        self.rec = rec
        self.objs = {}

    def visit(self, obj, key, via, placeholder):
        kind = type(obj).__name__
        lst = self.objs.setdefault((kind, key), [])
        if len(lst) < 5:
            lst.append((obj, via))
        self.rec.event('identity.objects')
        self.rec.call(via)

    def check(self, label):
        rec = self.rec
        keys = list(self.objs)
        for (kind, key), lst in self.objs.items():
            objs = [o for o, _ in lst]
            for (a, va), (b, vb) in itertools.combinations(lst, 2):
                rec.event('identity.pairs')
                if not (a == b) or a != b:
                    rec.violation('same-entity-unequal', f'{label}: {key} reached via {va} and via {vb} are not equal')
                    break
                if hash(a) != hash(b):
                    rec.violation('same-entity-hash-differs', f'{label}: {key} reached via {va} and via {vb} hash differently')
                    break
            if len(set(objs)) != 1:
                rec.violation('same-entity-set', f'{label}: {len(objs)} objects denoting {key} do not collapse in a set')
            try:
                other = (objs[0] == key) is True or (objs[0] != None) is not True or objs[0] in ('x', None, 0)  # noqa: E711
            except Exception as exc:
                other = f'{type(exc).__name__}: {exc}'
            if other:
                rec.violation('different-entities-equal', f'{label}: {key} compared with something that is not an entity: {other}')
        r = random.Random(len(keys))
        for _ in range(min(400, len(keys) * 3)):
            (k1, i1), (k2, i2) = r.choice(keys), r.choice(keys)
            if (k1, i1) == (k2, i2):
                continue
            a, b = self.objs[(k1, i1)][0][0], self.objs[(k2, i2)][0][0]
            rec.event('identity.pairs')
            if a == b:
                rec.violation('different-entities-equal', f'{label}: {k1} {i1} == {k2} {i2}')
            if k1 == k2 and len({a, b}) != 2:
                rec.violation('different-entities-set', f'{label}: {i1} and {i2} collapse in a set')


def run_case(case, rec):
    import wn
    r = random.Random(case['seed'])
    u = universe.make(r, versions=3, size=3)
    names = [n for n in universe.ORDER if n in u]
    # random admissible installation order (bases before extensions)
    order = []
    pool = list(names)
    r.shuffle(pool)
    while pool:
        for n in list(pool):
            ext = u[n].get('extends')
            if not ext or any(universe.spec(u[o]) == f"{ext['id']}:{ext['version']}" for o in order):
                order.append(n)
                pool.remove(n)
                break
    work = env.mkdtemp('c10')
    try:
        with env.FreshDB():
            m = ModelDB()
            universe.install(order, u, work, m)
            sp = {n: universe.spec(u[n]) for n in names}
            selections = [
                ('default', None, None),
                ('single', [sp[r.choice(names)]], None),
                ('versions', [sp['a1'], sp['a2'], sp['a3']], None),
                ('colliding', [sp['a1'], sp['b']], None),
                ('family', [sp['a1'], sp['xa'], sp['xxa'], sp['ya']], None),
                ('extension-only', [sp['xa']], None),
                ('lang', None, r.choice(['en', 'fr', 'ja'])),
            ]
            r.shuffle(selections)
            installed = [(s, m.lex[s].doc['language']) for s in sorted(m.lex, key=lambda x: m.lex[x].order)]
            for label, sel, lang in selections[:5]:
                ident = Identity(rec)
                if lang:
                    sel = mspec.select(installed, '*', lang)
                    rec.event('selection.lang')
                else:
                    rec.event('selection.' + label)
                compare(rec, m, sel, default=(sel is None), expand=None if sel is None else [], visit=ident.visit,
                        relations=False, label=f'C10 {label}', quirks=QUIRKS)
                ident.check(f'{label} {sel}')
                rec.state([case['seed'], label])
            check_translate(rec, m, installed, r)
            check_forms(rec, wn.Wordnet().words(), 'universe')
        # forms that differ only in their script are different forms
        entry = {'id': 'sc-e1', 'meta': None, 'lemma': {'writtenForm': 'kniga', 'partOfSpeech': 'n', 'script': None},
                 'forms': [{'writtenForm': 'kniga', 'script': 'Latn'}, {'writtenForm': 'kniga', 'script': 'Cyrl'},
                           {'writtenForm': 'knigi', 'script': 'Cyrl'}, {'writtenForm': 'knigi', 'script': None}],
                 'senses': [{'id': 'sc-s1', 'synset': 'sc-ss1', 'meta': None}]}
        for f in [entry['lemma']] + entry['forms']:
            if f['script'] is None:
                del f['script']
        lex = {'id': 'sc', 'label': 'scripts', 'language': 'sr', 'email': 'e', 'license': 'l', 'version': '1', 'meta': None,
               'entries': [entry], 'synsets': [{'id': 'sc-ss1', 'ili': '', 'partOfSpeech': 'n', 'meta': None}]}
        with env.FreshDB():
            wnio.add(wnio.write_resource({'lmf_version': '1.1', 'lexicons': [lex]}, work, random.Random(3), name='scripts.xml'))
            check_forms(rec, wn.Wordnet('sc:1').words(), 'scripts')
    finally:
        env.rmtree(work)
    rec.done(case['seed'], nontrivial=True, sample={'installed_in_order': [universe.spec(u[n]) for n in order]})


def check_forms(rec, words, label):
    """Form objects are values: two are equal iff they have the same text and the same script (then they hash alike);
    the lemma reached through lemma() and through forms()[0] is the same form"""
    forms = []
    for w_ in words[:40]:
        fs = w_.forms()
        forms.extend(fs[:6])
        lem = w_.lemma()
        rec.event('identity.forms')
        if not (lem == fs[0] and hash(lem) == hash(fs[0]) and lem.script == fs[0].script and lem.id == fs[0].id):
            rec.violation('same-entity-unequal', f'{label}: lemma() of {w_.id} and forms()[0] differ: {lem!r}/{lem.script} vs {fs[0]!r}/{fs[0].script}')
    # the same stored form reached twice is equal to itself and hashes alike ...
    for w_ in words[:40]:
        for a, b in zip(w_.forms(), w_.forms()):
            rec.event('identity.form-pairs')
            if not (a == b) or a != b or hash(a) != hash(b):
                rec.violation('same-entity-unequal', f'{label}: form {str(a)!r} of {w_.id} obtained twice: == {a == b}, != {a != b}')
                break
    # tags are values as well: equal iff same tag and same category
    tags = [t_ for f in forms for t_ in f.tags()][:60]
    for a, b in itertools.combinations(tags, 2):
        rec.event('identity.tag-pairs')
        if (a == b) != ((a.tag, a.category) == (b.tag, b.category)) or (a == 'x') is True:
            rec.violation('different-entities-equal' if a == b else 'same-entity-unequal',
                          f'{label}: tags ({a.tag!r}, {a.category!r}) and ({b.tag!r}, {b.category!r}): == gives {a == b}')
            break
    # ... and forms that differ in text or script are different, under == and under != (whether two stored forms with the
    # same text and script in different words count as equal is left open: Form is a str value)
    for a, b in itertools.combinations(forms, 2):
        if str(a) == str(b) and a.script == b.script:
            continue
        rec.event('identity.form-pairs')
        if a == b or not (a != b):
            rec.violation('different-entities-equal', f'{label}: forms {str(a)!r} (script {a.script}) and {str(b)!r} (script {b.script}): '
                          f'== gives {a == b}, != gives {a != b}')
            break


def check_translate(rec, m, installed, r):
    import wn
    t = m.tables()
    specs = [s for s, _ in installed]
    w = wn.Wordnet()
    sources = w.synsets()
    r.shuffle(sources)
    for ss in sources[:25]:
        skey = f'{ss.lexicon().specifier()}::{ss.id}'
        rec_ = t.synsets[skey]
        for target, lang in [(r.choice(specs), None), (None, r.choice(['en', 'fr', 'ja'])), (None, None),
                             (' '.join(r.sample(specs, 2)), None)]:
            T = mspec.select(installed, target or '*', lang)
            want = []
            if rec_['ili'] and rec_['ili'] != 'in':
                want = [x for x in t.synsets_by_ili.get(rec_['ili'], []) if t.synsets[x]['owner'] in T]
            got = ss.translate(lexicon=target, lang=lang)
            rec.call('Synset.translate')
            rec.event('translate.compared')
            gotk = [f'{x.lexicon().specifier()}::{x.id}' for x in got]
            d = diff(SetOf(want), gotk)
            if d:
                rec.violation('translate', f'{skey}.translate(lexicon={target!r}, lang={lang!r}) (ili {rec_["ili"]}): ' + fmt(d))
                continue
            # symmetry
            for x in got:
                back = x.translate(lexicon=skey.split('::')[0])
                rec.event('translate.symmetry')
                if ss not in back:
                    rec.violation('translate-asymmetric', f'{skey} -> {x.id} but not back')
            # sense translation is the image of the synset translation (through the sense's own synset())
            for s in ss.senses()[:2]:
                try:
                    want_s = [f'{y.lexicon().specifier()}::{y.id}'
                              for ts in s.synset().translate(lexicon=target, lang=lang) for y in ts.senses()]
                except wn.Error:
                    continue
                got_s = [f'{y.lexicon().specifier()}::{y.id}' for y in s.translate(lexicon=target, lang=lang)]
                rec.call('Sense.translate')
                rec.event('translate.compared')
                if got_s != want_s:
                    rec.violation('translate-sense', f'{s.id}.translate(lexicon={target!r}, lang={lang!r}): got {got_s}, '
                                  f'image of the synset translation {want_s}')
    # word translation: dict sense -> words of the translated senses
    for wd in w.words()[:10]:
        target = r.choice(specs)
        try:
            res = wd.translate(lexicon=target)
        except wn.Error:
            # a translated sense whose word lies outside the target selection (extension selected without its base)
            rec.event('translate.word.outside-target')
            continue
        rec.call('Word.translate')
        rec.event('translate.compared')
        if [s.id for s in res] != [s.id for s in wd.senses()]:
            rec.violation('translate-word', f'{wd.id}.translate keys are not the senses of the word')
        for s, words in res.items():
            try:
                want = [x.word().id for x in s.translate(lexicon=target)]
            except wn.Error:
                continue
            if [x.id for x in words] != want:
                rec.violation('translate-word', f'{wd.id}.translate()[{s.id}] is not the image of the sense translation')
