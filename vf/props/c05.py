"""C05 - database content depends only on which lexicons are installed.

A history is a random sequence of add (file / in-memory / multi-lexicon file / ILI file) and remove (exact, bare id,
id:*, *:version, list, *) over a fixed universe of related lexicons.  After *every* operation (quiescent point):
installed set == model, structural audit of the SQLite file, dependency links (requires/extends/extensions) ==
model; every few operations and at the end: observation of every installed lexicon family == model; at the
end: observation == observation of a fresh database built from just the installed lexicons (second real execution).
"""

import random

from vf import env, wnio, dbdump
from vf.diff import diff, fmt
from vf.gen import doc
from vf.model.db import ModelDB
from vf.model import spec as mspec
from vf.obscheck import compare, canon_real, norm_path, strip_ghost_tags
from vf.observe import observe

RULE = ('one case = one history of 6-24 operations over a universe of 9 related lexicons (two versions of a base, extension, '
        'extension of extension, second extension, dependent lexicons, unrelated lexicon sharing ILIs, multi-lexicon files) starting '
        'from an empty database; distinct = hash of the operation sequence; non-trivial = at least one removal that removed '
        'something and one add after a removal')
ASSUMPTIONS = ['the shared ILI inventory and cross-lexicon order are excluded as the statement says',
               'bare-id specifiers are only used while one version of that id is installed (C08 owns ambiguity)']
FLOORS = {'*': {'op.add': 100, 'op.remove': 50, 'op.failing-add': 20, 'audit.run': 200, 'fresh.compared': 20}}
N = {'quick': 200, 'thorough': 4000}
QUIRKS = {'tags-unowned': 'extension-form-tags-residue', 'ext-forms': 'unselected-extension-forms', 'nav-by-id': 'sense-nav-by-id'}


def plan(tier, seed):
    return [{'seed': seed * 1000003 + i, 'len': 6 + (i * 7) % 19} for i in range(N[tier])]


def universe(r):
    v = '1.1'
    p = doc.Profile(max_entries=4, max_synsets=4, ili='shared', idstyle='short')
    b1 = doc.gen_lexicon(r, v, 'ba', '1', p, idprefix='b-')
    b2 = doc.gen_lexicon(r, v, 'ba', '2', p, idprefix='b-')
    e1 = doc.gen_lexicon(r, v, 'ex', '1', p, base=b1)
    ee = doc.gen_lexicon(r, v, 'exx', '1', p, base=e1)
    e2 = doc.gen_lexicon(r, v, 'ey', '2', p, base=b1)
    dep = doc.gen_lexicon(r, v, 'dep', '1', p, requires=[('ba', '1'), ('un', '1')], idprefix='d-')
    req = doc.gen_lexicon(r, v, 'req', '2', p, requires=[('missing', '9'), ('ex', '1'), ('ba', '2')], idprefix='q-')   # a provider may be an extension
    un = doc.gen_lexicon(r, v, 'un', '1', p, idprefix='b-')   # same ids as the base on purpose
    old = doc.gen_lexicon(r, '1.0', 'old', '1', doc.Profile(max_entries=3, max_synsets=3, ili='shared'), idprefix='o-')
    # look-alikes of required providers: equal to 'ba:1' / 'un:1' / anything only for a pattern match (LIKE, GLOB, case folding)
    lk = doc.gen_lexicon(r, v, 'b_', '1', doc.Profile(max_entries=2, max_synsets=2, ili='shared', idstyle='short'), idprefix='k-')
    lu = doc.gen_lexicon(r, v, 'UN', '1', doc.Profile(max_entries=2, max_synsets=2, ili='shared', idstyle='short'), idprefix='u-')
    lp = doc.gen_lexicon(r, v, '%', '*', doc.Profile(max_entries=2, max_synsets=2, ili='shared', idstyle='short'), idprefix='p-')
    lex = {'b1': b1, 'b2': b2, 'e1': e1, 'ee': ee, 'e2': e2, 'dep': dep, 'req': req, 'un': un, 'old': old, 'lk': lk, 'lu': lu, 'lp': lp}
    files = {
        'b1': ['b1'], 'b2': ['b2'], 'e1': ['e1'], 'ee': ['ee'], 'e2': ['e2'], 'dep': ['dep'], 'req': ['req'], 'un': ['un'],
        'old': ['old'], 'lk': ['lk'], 'lu': ['lu'], 'lp': ['lp'], 'b1+un': ['b1', 'un'], 'un+b1': ['un', 'b1'], 'b1+e1': ['b1', 'e1'], 'e1+ee+e2': ['e1', 'ee', 'e2'],
    }
    return lex, files


def run_case(case, rec):
    import wn
    from wn import lmf
    r = random.Random(case['seed'])
    lex, files = universe(r)
    work = env.mkdtemp('c05')
    paths = {}
    resources = {}
    for name, members in files.items():
        v = '1.0' if members == ['old'] else '1.1'
        res = {'lmf_version': v, 'lexicons': [lex[m] for m in members]}
        resources[name] = res
        paths[name] = wnio.write_resource(res, work, random.Random(sum(name.encode())), name=f'{name}.xml')
    ili_rows = [{'ili': f'i{n}', 'status': r.choice(['active', 'provisional', 'deprecated']), 'definition': f'def of i{n}'}
                for n in r.sample(range(1, 12), 5)]
    ili_path = work / 'ili.tsv'
    ili_path.write_text('ili\tstatus\tdefinition\n' + ''.join(f"{x['ili']}\t{x['status']}\t{x['definition']}\n" for x in ili_rows))
    ops = []
    removed_something = added_after_removal = False
    rowid_reuse = 0
    try:
        with env.FreshDB() as fdb:
            m = ModelDB()
            last_added = None
            for step in range(case['len']):
                installed = [(sp, m.lex[sp].doc['language']) for sp in sorted(m.lex, key=lambda s: m.lex[s].order)]
                x = r.random()
                if r.random() < 0.1:
                    # a later process: the pooled connection is dropped, the next call opens the existing file anew
                    env.close_pool()
                    ops.append(['reconnect'])
                    rec.event('op.reconnect')
                if r.random() < 0.08:
                    # an add that fails half-way (the caller's progress handler raises): by C06 it changes nothing, and the
                    # history goes on from the same content
                    from vf.monitors import faults
                    name = r.choice(list(files))
                    counter = faults.new_counter()
                    counter.fail_at = r.randint(1, 40)
                    ops.append(['failing-add', name, counter.fail_at])
                    try:
                        wn.add(paths[name], progress_handler=faults.make_faulty_progress(counter))
                    except faults.InjectedFault:
                        pass
                    exc_free = not counter.fired
                    if exc_free:
                        # the add needed fewer callbacks than that: it completed (or skipped everything) normally
                        m.add_like_real(resources[name], [lx.specifier() for lx in wn.lexicons()])
                        ops[-1][0] = 'add'
                    else:
                        rec.event('op.failing-add')
                if x < 0.55 or not installed:
                    name = r.choice(list(files))
                    route = r.choice(['file', 'file', 'memory'])
                    ops.append(['add', name, route])
                    before = set(m.lex)
                    if route == 'file':
                        wnio.add(paths[name])
                    else:
                        wn.add_lexical_resource(lmf.load(paths[name], progress_handler=None), progress_handler=None)
                    m.add_like_real(resources[name], [lx.specifier() for lx in wn.lexicons()])
                    rec.event('op.add')
                    new = set(m.lex) - before
                    if new and removed_something:
                        added_after_removal = True
                    if new:
                        last_added = sorted(new, key=lambda s: m.lex[s].order)[-1]
                elif x < 0.62:
                    ops.append(['add-ili'])
                    wnio.add(ili_path)
                    m.add_ili(ili_rows)
                    rec.event('op.add-ili')
                else:
                    kind = r.choice(['exact', 'exact', 'idstar', 'verstar', 'bare', 'list', 'all', 'last'])
                    sp0 = r.choice(installed)[0]
                    id0, ver0 = sp0.split(':', 1)
                    if kind == 'exact':
                        s = sp0
                    elif kind == 'idstar':
                        s = f'{id0}:*'
                    elif kind == 'verstar':
                        s = f'*:{ver0}'
                    elif kind == 'bare':
                        s = id0 if sum(1 for sp, _ in installed if sp.split(':')[0] == id0) == 1 else sp0
                    elif kind == 'list':
                        s = ' '.join(sorted({sp0, r.choice(installed)[0]}))
                    elif kind == 'last' and last_added in m.lex:
                        s = last_added
                        rowid_reuse += 1
                    elif kind == 'all' and r.random() < 0.3:
                        s = '*'
                    else:
                        s = sp0
                    ops.append(['remove', s])
                    selected = mspec.select(installed, s)
                    try:
                        wn.remove(s, progress_handler=None)
                        rec.event('op.remove')
                        if not selected:
                            rec.violation('remove-no-error', f'remove({s!r}) matched nothing but did not raise')
                    except wn.Error as exc:
                        if selected:
                            # a star list can contain a lexicon that was already removed as an extension of an
                            # earlier match: find_lexicons is evaluated lazily, so this cannot raise; anything else is wrong
                            rec.violation('remove-raised', f'remove({s!r}) raised {exc} although it selects {selected}')
                    for sp in selected:
                        if sp in m.lex:
                            m.remove(sp)
                            removed_something = True
                # ---- quiescent point (sometimes skipped: then nothing at all is asked of the library between two
                # operations, as in a script that only adds and removes)
                if step + 1 < case['len'] and r.random() < 0.3:
                    rec.event('step.unobserved')
                    continue
                real = sorted(lx.specifier() for lx in wn.lexicons())
                if real != sorted(m.lex):
                    rec.violation('installed-set', f'after {ops[-1]}: installed {real}, model {sorted(m.lex)} (history {ops})')
                    return
                rec.state(real)
                rec.event('audit.run')
                for key, msg in dbdump.audit(fdb.path):
                    rec.violation('audit:' + key, f'after {ops[-1]}: {msg} (history {ops})')
                check_links(rec, m, ops)
                if step % 4 == 3:
                    check_observations(rec, m, ops)
            check_observations(rec, m, ops)
            # every removed lexicon can be added again
            for name in ('b1', 'e1', 'ee', 'e2'):
                wnio.add(paths[name])
                m.add_resource(resources[name])
            real = sorted(lx.specifier() for lx in wn.lexicons())
            if real != sorted(m.lex):
                rec.violation('re-add', f're-adding the base and its extensions gives {real}, model {sorted(m.lex)} (history {ops})')
                return
            check_observations(rec, m, ops)
            for key, msg in dbdump.audit(fdb.path):
                rec.violation('audit:' + key, f'after the final re-adds: {msg} (history {ops})')
            # ---- second real execution: a fresh database with just the installed lexicons
            obs_hist = {sp: canon_real(observe(wnio.wordnet(fam(m, sp)), rec)) for sp in sorted(m.lex)}
            order = sorted(m.lex, key=lambda s: (len(m.bases_of(s)), s))
            with env.FreshDB():
                for sp in order:
                    name = next(n for n, d in lex.items() if f"{d['id']}:{d['version']}" == sp)
                    wnio.add(paths[name])
                for sp in sorted(m.lex):
                    o2 = canon_real(observe(wnio.wordnet(fam(m, sp)), rec))
                    d = diff(mask_ili(o2), mask_ili(obs_hist[sp]))
                    rec.event('fresh.compared')
                    if d:
                        key = 'history-vs-fresh:' + norm_path(d[0])
                        if strip_ghost_tags(obs_hist[sp], m) and diff(mask_ili(o2), mask_ili(obs_hist[sp])) is None:
                            key = 'extension-form-tags-residue'
                        rec.violation(key, f'database after history differs from a fresh database with the same lexicons, scope {fam(m, sp)}: '
                                      + fmt(d) + f' (history {ops})')
    finally:
        env.rmtree(work)
    rec.add_extra('rowid_reuse_patterns', rowid_reuse)
    rec.done(ops, nontrivial=removed_something and added_after_removal,
             sample={'history': ops})


def fam(m, sp):
    return sorted(m.family(sp), key=lambda s: m.lex[s].order)


def _sorted(v):
    import json
    return sorted(v, key=lambda x: json.dumps(x, sort_keys=True, default=str))


def mask_ili(o):
    """for the history-vs-fresh comparison: the ILI inventory is masked and every list is compared as a multiset - the
    two databases installed the lexicons in different orders, and the order between contributions of different
    lexicons is what the statement sets aside (order inside one lexicon is checked against the model)"""
    import copy
    o = copy.deepcopy(o)
    for kind in ('words', 'senses', 'synsets'):
        for d in o[kind].values():
            if isinstance(d, dict):
                # "first definition" with several contributing lexicons depends on their installation order
                d.pop('definition', None)
                for k_, v in list(d.items()):
                    if isinstance(v, list) and k_ != 'ili':
                        if k_ == 'forms':
                            for f in v:
                                f['tags'] = _sorted(f['tags'])
                                f['prons'] = _sorted(f['prons'])
                        d[k_] = _sorted(v)
    for d in o['synsets'].values():
        if isinstance(d, dict) and d.get('ili') and d['ili'][0] is not None:
            d['ili'] = [d['ili'][0]]
            d.pop('ili_inv_meta', None)
    o['ilis'] = sorted({i[0] for i in o['ilis'] if i and i[0] is not None}) + [i for i in o['ilis'] if i and i[0] is None]
    return o


def check_links(rec, m, ops):
    import wn
    for lx in wn.lexicons():
        sp = lx.specifier()
        inst = m.lex.get(sp)
        if inst is None:
            continue
        want_req = {}
        for r_ in inst.doc.get('requires') or []:
            s2 = f"{r_['id']}:{r_['version']}"
            want_req[s2] = s2 if s2 in m.lex else None
        got_req = {k: (v.specifier() if v is not None else None) for k, v in lx.requires().items()}
        ext = lx.extends()
        got = (got_req, ext.specifier() if ext else None, sorted(x.specifier() for x in lx.extensions()),
               sorted(x.specifier() for x in lx.extensions(depth=-1)))
        want = (want_req, inst.base, sorted(m.extensions_of(sp, False)), sorted(m.extensions_of(sp, True)))
        rec.event('links.compared')
        if got != want:
            rec.violation('dependency-links', f'{sp}: requires/extends/extensions = {got}, model {want} (history {ops})')


def check_observations(rec, m, ops):
    done = set()
    for sp in sorted(m.lex):
        f = tuple(fam(m, sp))
        # the whole extension family of a base: everything any member contributes is in scope
        root = (m.bases_of(sp) or [sp])[-1]
        if root in done:
            continue
        done.add(root)
        fam_all = sorted([root] + m.extensions_of(root), key=lambda s: m.lex[s].order)
        compare(rec, m, fam_all, label=f'C05 history {ops}', quirks=QUIRKS)
    # the unrestricted default mode as well (every entity navigates inside its own extension family, whatever was
    # installed or removed since the last look)
    if m.lex and len(ops) % 3 == 0:
        rec.event('default-mode.compared')
        compare(rec, m, None, default=True, label=f'C05 default mode after history {ops}', quirks=QUIRKS)
