"""C09 - word-form search follows the documented exact / normalized / lemmatized procedure.

Lexicons with case/diacritic twins, forms shared by several words and parts of speech, non-lemma forms equal to other
words' lemmas, multi-word, non-Latin and compatibility-character forms; queries = stored forms, case/diacritic variants,
normalised forms, near misses, inflected-looking forms; x pos x normalizer {default, None} x search_all_forms x lemmatizer
{none, table-driven custom, Morphy(), Morphy(wordnet)}; scopes: lexicon alone, lexicon + extension that adds forms/words.
Every result of words()/senses()/synsets() (Wordnet methods and module functions) is compared, as a set and for
duplicates, with the search model; every returned entity is re-checked to really have a matching form.
"""

import random

from vf import env, wnio
from vf.gen import doc
from vf.model import search as ms

ID = 'C09'
RULE = ('one evaluation = one (lexicon, scope, query, pos, configuration) tuple; distinct = the tuple; non-trivial = the model '
        'expects a non-empty result, or the query is a variant of a stored form that must NOT match in this configuration')
ASSUMPTIONS = ['pos filter of synsets(form, pos) applies to the synset (documented), of words/senses to the word']
FLOORS = {'*': {'search.compared': 20000, 'search.nonempty': 3000, 'backoff.used': 100}}
N = {'quick': 24, 'thorough': 800}
STEMS = ['resume', 'Résumé', 'RESUME', 'résume', 'wolf', 'wolve', 'wolves', 'ax', 'axe', 'axis', 'axes', 'bus', 's', 'es', 'men',
         'man', 'big', 'bigge', 'bigger', 'San José', 'san jose', 'San Jose', 'ﬁsh', 'fish', 'run', 'runn', 'running', 'ox', 'oxen',
         '情報', 'ネコ', 'e', 'y', 'ice cream', 'Ice Cream', 'ＡＢＣ', 'abc', '①', '1', 'straße', 'strasse', 'İ', 'i̇', 'o\'clock', 'a"b', 'x<y',
         # marks of combining class 0 (not dropped by the normalizer) next to ones that are dropped
         'कल', 'कुल', 'कं', 'กน', 'กิน', 'กัน', 'שָׁלוֹם', 'שלום', 'كَتَبَ', 'كتب', 'άλφα', 'αλφα', 'Việt', 'Viet', 'a\u20dd', 'a']
SUFF = ['s', 'ces', 'ses', 'ves', 'ives', 'xes', 'zes', 'ches', 'shes', 'men', 'ies', 'es', 'ed', 'ing', 'er', 'est']
POS = ['n', 'v', 'a', 's', 'r']


def custom_normalizer(s):
    """a caller's own normalizer: lower-case, hyphens and underscores to spaces, 'ss' to sharp s (not what was stored)"""
    return s.lower().replace('-', ' ').replace('_', ' ').replace('ss', 'ß')


def plan(tier, seed):
    return [{'seed': seed * 1000003 + i, 'nq': 40 if tier == 'quick' else 70} for i in range(N[tier])] + [{'kind': 'pytest-under-contracts', 'seed': 0}]


def gen(r):
    """base lexicon and an extension; returns (base doc, ext doc, entries description)"""
    def form():
        return r.choice(STEMS) + (r.choice(SUFF) if r.random() < 0.3 else '')
    synsets = [{'id': f'ss-{p}', 'ili': '', 'partOfSpeech': p, 'meta': None} for p in POS]
    synsets.append({'id': 'ss-mixed', 'ili': '', 'partOfSpeech': 'n', 'meta': None})
    entries = []
    for i in range(r.randint(3, 12)):
        pos = r.choice(POS)
        lemma = form()
        others = []
        for _ in range(r.choice([0, 0, 1, 2, 3])):
            f = form()
            if f != lemma and f not in others:
                others.append(f)
        senses = [{'id': f'e{i}-s1', 'synset': f'ss-{pos}', 'meta': None}]
        if r.random() < 0.3:
            senses.append({'id': f'e{i}-s2', 'synset': 'ss-mixed', 'meta': None})
        if r.random() < 0.1:
            senses = []
        e = {'id': f'e{i}', 'meta': None, 'lemma': {'writtenForm': lemma, 'partOfSpeech': pos}}
        if others:
            e['forms'] = [{'writtenForm': f} for f in others]
        if senses:
            e['senses'] = senses
        entries.append(e)
    base = {'id': 'sb', 'label': 'search base', 'language': 'en', 'email': 'e', 'license': 'l', 'version': '1', 'meta': None,
            'entries': entries, 'synsets': synsets}
    # extension: new forms on some base entries, some new entries
    xentries = []
    for e in r.sample(entries, min(len(entries), r.randint(0, 3))):
        have = {e['lemma']['writtenForm']} | {f['writtenForm'] for f in e.get('forms', [])}
        new = []
        for _ in range(r.choice([1, 2])):
            f = form()
            if f not in have:
                have.add(f)
                new.append({'writtenForm': f})
        if new:
            xentries.append({'id': e['id'], 'external': True, 'forms': new})
    for i in range(r.randint(0, 3)):
        pos = r.choice(POS)
        xentries.append({'id': f'x{i}', 'meta': None, 'lemma': {'writtenForm': form(), 'partOfSpeech': pos},
                         'senses': [{'id': f'x{i}-s1', 'synset': f'ss-{pos}', 'meta': None}]})
    ext = {'id': 'sx', 'label': 'search ext', 'language': 'en', 'email': 'e', 'license': 'l', 'version': '1', 'meta': None,
           'extends': {'id': 'sb', 'version': '1'}, 'entries': xentries,
           'synsets': [{'id': f'ss-{p}', 'external': True} for p in POS]}
    return base, ext


def model_words(base, ext, scope):
    """word descriptions for the search model in scope 'base' or 'base+ext'"""
    sspos = {ss['id']: ss.get('partOfSpeech') for ss in base['synsets'] if not ss.get('external')}
    words = {}
    for e in base['entries']:
        words[e['id']] = {'key': f'sb:1::{e["id"]}', 'pos': e['lemma']['partOfSpeech'],
                          'forms': [e['lemma']['writtenForm']] + [f['writtenForm'] for f in e.get('forms', [])],
                          'senses': [(f'sb:1::{s["id"]}', f'sb:1::{s["synset"]}', sspos[s['synset']]) for s in e.get('senses', [])]}
    if scope == 'base+ext':
        for e in ext['entries']:
            if e.get('external'):
                words[e['id']]['forms'] += [f['writtenForm'] for f in e.get('forms', [])]
            else:
                words['x:' + e['id']] = {'key': f'sx:1::{e["id"]}', 'pos': e['lemma']['partOfSpeech'],
                                         'forms': [e['lemma']['writtenForm']],
                                         'senses': [(f'sx:1::{s["id"]}', f'sb:1::{s["synset"]}', sspos[s['synset']])
                                                    for s in e.get('senses', [])]}
    return list(words.values())


def custom_lemmatizer(table):
    def lemmatize(form, pos=None):
        out = {}
        for (f, p), targets in table.items():
            if f == form and (pos is None or p is None or p == pos):
                out.setdefault(p if pos is None else pos, set()).update(targets)
        return out
    return lemmatize


def queries_for(words, r, n):
    qs = set()
    for w in words:
        for f in w['forms']:
            qs |= {f, f.lower(), f.upper(), ms.normalize(f), f + 's', f + 'es', f + 'ed', f + 'ing', f + 'er', f + 'est',
                   f[:-1] if len(f) > 1 else f, f.title(), ' ' + f,
                   # what only a caller's own normalizer maps back to the stored form
                   f.replace(' ', '-'), f.replace(' ', '_').upper(), f.replace('ß', 'ss'), f.upper().replace('ß', 'SS')}
    qs |= set(SUFF) | {'zzz', '', 'résumé', 'Resume', 'ﬁshes', 'FISH'}
    qs.discard('')
    qs = sorted(qs)
    r.shuffle(qs)
    stored = [f for w in words for f in w['forms']]
    return list(dict.fromkeys(r.sample(stored, min(len(stored), n // 3)) + qs[:n]))


def run_case(case, rec):
    if case.get('kind') == 'pytest-under-contracts':
        from vf import contracts_case
        return contracts_case.run(rec, ID)
    import wn
    from wn.morphy import Morphy
    r = random.Random(case['seed'])
    base, ext = gen(r)
    work = env.mkdtemp('c09')
    try:
        with env.FreshDB():
            wnio.add(wnio.write_resource({'lmf_version': '1.1', 'lexicons': [base]}, work, random.Random(1), name='b.xml'))
            for scope, sel in (('base', ['sb:1']), ('base+ext', ['sb:1', 'sx:1']), ('base|ext-installed', ['sb:1'])):
                if scope == 'base+ext':
                    wnio.add(wnio.write_resource({'lmf_version': '1.1', 'lexicons': [ext]}, work, random.Random(2), name='x.xml'))
                # the third scope selects the base only while its extension is installed: the extension's forms,
                # words and senses must be invisible to the search
                words = model_words(base, ext, 'base' if scope.startswith('base|') else scope)
                model = ms.SearchModel(words)
                qs = queries_for(words, r, case['nq'])
                table = {}
                for _ in range(6):
                    w = r.choice(words)
                    table[(r.choice(qs), r.choice([None, w['pos']]))] = {w['forms'][0], r.choice(qs)}
                # a lemmatizer may also answer with a part of speech and no form at all: it proposes nothing then
                table[(r.choice(qs), r.choice(POS))] = set()
                custom = custom_lemmatizer(table)
                w0 = wn.Wordnet(' '.join(sel))
                lemmatizers = [('none', None), ('custom', custom), ('morphy', Morphy()), ('morphy-init', Morphy(w0))]
                by_key = {w['key']: w for w in words}
                for norm_on in (True, False, custom_normalizer):
                    for all_forms in (True, False):
                        for lname, lem in lemmatizers:
                            if callable(norm_on) and lname in ('morphy', 'morphy-init'):
                                continue
                            w = wn.Wordnet(' '.join(sel), normalizer=(norm_on if callable(norm_on) else wn._util.normalize_form if norm_on else None),
                                           search_all_forms=all_forms, lemmatizer=lem)
                            cfg = f'{scope} norm={"custom" if callable(norm_on) else norm_on} all_forms={all_forms} lemmatizer={lname}'
                            rec.event('config.' + cfg.replace(' ', ','))
                            for q in qs:
                                for pos in [None] + r.sample(POS + ['t'], 2):
                                    for kind, meth in (('words', w.words), ('senses', w.senses), ('synsets', w.synsets)):
                                        want = model.search(kind, q, pos, norm_on, all_forms, lem)
                                        got = meth(q, pos)
                                        gk = [f'{x.lexicon().specifier()}::{x.id}' for x in got]
                                        rec.event('search.compared')
                                        rec.call('Wordnet.' + kind)
                                        if want:
                                            rec.event('search.nonempty')
                                        if len(set(gk)) != len(gk):
                                            rec.violation('search-duplicates', f'{cfg}: {kind}({q!r}, {pos!r}) returns duplicates {gk}')
                                        if set(gk) != want:
                                            rec.violation(f'search:{kind}', f'{cfg}: {kind}({q!r}, {pos!r}) = {sorted(set(gk))}, model {sorted(want)}',
                                                          {'config': cfg, 'query': q, 'pos': pos})
                                        exact_pass = model.search(kind, q, pos, False, all_forms, None)
                                        if norm_on and lem is None and want and not model.search(kind, q, pos, norm_on, all_forms, None) == exact_pass:
                                            rec.event('normalized-match.used')
                                        stored_hit = any(q in (x['forms'] if all_forms else x['forms'][:1]) or
                                                         ms.normalize(f) == q for x in words for f in (x['forms'] if all_forms else x['forms'][:1]))
                                        if norm_on and lem is None and want and not stored_hit:
                                            rec.event('backoff.used')
                                        nontrivial = bool(want) or any(ms.normalize(q) == ms.normalize(f) for x in words for f in x['forms'])
                                        rec.done([case['seed'], cfg, q, pos, kind], nontrivial=nontrivial,
                                                 sample={'config': cfg, 'query': q, 'pos': pos, 'kind': kind, 'result': sorted(want)})
                # module-level functions use the default configuration
                for q in qs[:12]:
                    for kind, f in (('words', wn.words), ('senses', wn.senses), ('synsets', wn.synsets)):
                        for pos in (None, r.choice(POS)):
                            want = model.search(kind, q, pos, True, True, None)
                            got = [f'{x.lexicon().specifier()}::{x.id}' for x in f(q, pos, lexicon=' '.join(sel))]
                            rec.call('wn.' + kind)
                            rec.event('search.compared')
                            if set(got) != want or len(set(got)) != len(got):
                                rec.violation('search:module-level', f'wn.{kind}({q!r}, {pos!r}, lexicon={sel}) = {sorted(got)}, model {sorted(want)}')
            rec.state(case['seed'])
    finally:
        env.rmtree(work)
