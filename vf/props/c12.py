"""C12 - relations borrowed through expand lexicons are mapped by ILI as documented.

Triples (L, E1, E2) with partially overlapping ILIs (L lacks some concepts, several synsets per ILI on either side, synsets
without / with proposed ILI, L has some relations of its own), expand in {default, '', one, several, '*'}, the dependency
declared or not, installed or missing.  The full observation (relations(), get_related(), relation_map() with borrowed
relations keeping the expand lexicon's source/target/lexicon, placeholders by ILI, own-before-borrowed order) is compared
with the model; expanded_lexicons() and the missing-dependency warning are checked; hypernym_paths() through chains of
placeholders is compared with the model's simple paths.
"""

import random
import warnings

from vf import env, wnio
from vf.diff import diff, fmt, Bag
from vf.gen import doc
from vf.model.db import ModelDB, View
from vf.obscheck import compare

RULE = ('one case = one triple of lexicons sharing an ILI pool x 6 expand settings x dependency declared/installed variants; distinct = '
        'document hash + setting; non-trivial = at least one relation was borrowed and at least one placeholder synset appeared')
ASSUMPTIONS = ["relation_map() is a dict: with many-to-many ILI matches it holds one of the model's (key, value) pairs per key; the key set must be complete"]
FLOORS = {'*': {'expand.compared': 200, 'borrowed.relations': 200, 'placeholders': 50, 'warning.checked': 100}}
N = {'quick': 50, 'thorough': 2000}
QUIRKS = {'nav-by-id': None, 'tags-unowned': None, 'ext-forms': None}
HYP = ('hypernym', 'instance_hypernym')


def plan(tier, seed):
    return [{'seed': seed * 1000003 + i} for i in range(N[tier])]


def run_case(case, rec):
    import wn
    r = random.Random(case['seed'])
    pool = [f'i{n}' for n in range(1, 7)]
    pe = doc.Profile(max_entries=3, max_synsets=6, ili='shared', ili_pool=pool, max_rel=3, p_rel=0.9, dup_rel=0.1,
                     rel_synset=['hypernym', 'hypernym', 'instance_hypernym', 'similar', 'mero_part'], idstyle='prefixed', hostile=0.05)
    pl = doc.Profile(**{**pe, 'max_synsets': 4, 'p_rel': 0.3, 'ili_pool': pool[:5]})
    declare = r.choice([True, True, False])
    missing = r.choice([True, False])
    reqs = []
    two_versions = r.random() < 0.35      # two versions of the provider installed, both declared as dependencies
    if declare:
        reqs.append(('e', '1'))
        if two_versions:
            reqs.append(('e', '2'))
    if missing:
        reqs.append(('g', '9'))
    L = doc.gen_lexicon(r, '1.1', 'l', '1', pl, requires=reqs or None, language='ja')
    E1 = doc.gen_lexicon(r, '1.1', 'e', '1', pe, language='en')
    E2 = doc.gen_lexicon(r, '1.1', 'f', '1', pe, language='en')
    E1b = doc.gen_lexicon(r, '1.1', 'e', '2', pe, language='en') if two_versions else None
    work = env.mkdtemp('c12')
    borrowed = placeholders = 0
    try:
        with env.FreshDB():
            m = ModelDB()
            order = [L, E1, E2] + ([E1b] if E1b else [])
            r.shuffle(order)
            for i, lx in enumerate(order):
                res = {'lmf_version': '1.1', 'lexicons': [lx]}
                wnio.add(wnio.write_resource(res, work, random.Random(i), name=f'l{i}.xml'))
                m.add_resource(res)
            settings = [('default', None), ('none', []), ('one', ['e:1']), ('other', ['f:1']), ('several', ['e:1', 'f:1']),
                        ('star', '*'), ('self+e', ['l:1', 'e:1'])]
            for label, exp in settings:
                # ---- constructor: expand set and warning
                with warnings.catch_warnings(record=True) as caught:
                    warnings.simplefilter('always')
                    if exp is None:
                        w = wn.Wordnet('l:1')
                    elif exp == '*':
                        w = wn.Wordnet('l:1', expand='*')
                    else:
                        w = wn.Wordnet('l:1', expand=' '.join(exp))
                warned = [str(c.message) for c in caught if issubclass(c.category, wn.WnWarning)]
                rec.event('warning.checked')
                should_warn = exp is None and missing
                if bool(warned) != should_warn:
                    rec.violation('missing-dependency-warning', f'expand={label}: warning {"absent" if should_warn else "spurious"} '
                                  f'(declared {reqs}, installed {sorted(m.lex)}): {warned}')
                elif should_warn and 'g:9' not in warned[0]:
                    rec.violation('missing-dependency-warning', f'warning does not name the missing dependency: {warned}')
                if exp is None:
                    model_exp = (['e:1'] + (['e:2'] if two_versions else [])) if declare else []
                elif exp == '*':
                    model_exp = sorted(m.lex)
                else:
                    model_exp = list(exp)
                got_exp = sorted({x.specifier() for x in w.expanded_lexicons()})
                if got_exp != sorted(model_exp):
                    rec.violation('expanded-lexicons', f'expand={label}: expanded_lexicons() = {got_exp}, model {sorted(model_exp)}')
                # ---- full observation
                rec.event('expand.compared')
                rec.event('expand.' + label)
                ok = compare(rec, m, ['l:1'], expand=None if exp is None else model_exp, label=f'C12 expand={label}', quirks=QUIRKS)
                view = View(m, ['l:1'], False, model_exp)
                for sskey, ss in view.t.synsets.items():
                    if ss['owner'] != 'l:1':
                        continue
                    ex = view.expanded_synset_relations(ss['ili'], sskey, {'l:1'})
                    borrowed += len(ex)
                    rec.event('borrowed.relations', len(ex))
                    ph = sum(1 for _, t_ in ex if t_.startswith('*INFERRED*'))
                    placeholders += ph
                    rec.event('placeholders', ph)
                    if exp == []:
                        continue
                # ---- hypernym paths through placeholders
                if ok:
                    for x in w.synsets():
                        key = f'l:1::{x.id}'
                        want = model_paths(view, key)
                        if want is None:
                            rec.event('paths.skipped')
                            continue
                        got = [[_pk(y) for y in p] for p in x.hypernym_paths()]
                        rec.event('hypernym_paths.compared')
                        d = diff(Bag(want), got)
                        if d:
                            rec.violation('hypernym-paths-expanded', f'expand={label}: {key}.hypernym_paths(): ' + fmt(d))
                        # closure over the same (partly borrowed) hypernymy: everything reachable, placeholders included, once
                        reach, todo = [], [t for t in hyp_targets(view, key)]
                        while todo:
                            t = todo.pop(0)
                            if t not in reach:
                                reach.append(t)
                                todo.extend(hyp_targets(view, t))
                        got_c = [_pk(y) for y in x.closure(*HYP)]
                        rec.event('closure.compared')
                        if sorted(got_c) != sorted(reach):
                            rec.violation('closure-expanded', f'expand={label}: {key}.closure{HYP} = {got_c}, reachable over own and borrowed '
                                          f'hypernymy: {reach}')
            # the dependent lexicon selected together with its provider: the default expand set is still made of the
            # declared, installed dependencies (being selected as well does not take a lexicon out of it)
            with warnings.catch_warnings():
                warnings.simplefilter('ignore')
                w2 = wn.Wordnet('l:1 e:1')
            want2 = (['e:1'] + (['e:2'] if two_versions else [])) if declare else []
            got2 = sorted({x.specifier() for x in w2.expanded_lexicons()})
            rec.event('expand.both-selected')
            if got2 != want2:
                rec.violation('expanded-lexicons', f"Wordnet('l:1 e:1') (dependency declared: {declare}): expanded_lexicons() = {got2}, model {want2}")
            compare(rec, m, ['l:1', 'e:1'], expand=want2, label='C12 dependent and provider selected together', quirks=QUIRKS)
            # synsets obtained by translate(lexicon='l:1') live in a Wordnet restricted to l:1 with its *default* expand set:
            # navigating on from them gives what Wordnet('l:1') gives
            with warnings.catch_warnings():
                warnings.simplefilter('ignore')
                wl = wn.Wordnet('l:1')
                for src in wn.Wordnet('e:1').synsets()[:6]:
                    for y in src.translate(lexicon='l:1'):
                        rec.event('translate.navigated')
                        got_t = [_pk(z) for z in y.get_related()]
                        want_t = [_pk(z) for z in wl.synset(y.id).get_related()]
                        if got_t != want_t:
                            rec.violation('translate-result-expand', f'{_pk(src)}.translate(lexicon="l:1") -> {_pk(y)}: get_related() = {got_t}, '
                                          f"the same synset through Wordnet('l:1') gives {want_t} (dependency declared: {declare})")
            # an unrestricted Wordnet expands over all lexicons
            w = wn.Wordnet()
            if sorted(x.specifier() for x in w.expanded_lexicons()) != sorted(m.lex):
                rec.violation('expanded-lexicons', 'default-mode Wordnet does not expand over all lexicons')
            compare(rec, m, None, default=True, label='C12 default mode', quirks=QUIRKS)
            rec.event('expand.default-mode')
            # ... unless expansion is switched off explicitly
            from vf.observe import observe
            from vf.diff import diff as _diff
            w0 = wn.Wordnet(expand='')
            if w0.expanded_lexicons():
                rec.violation('expanded-lexicons', f"Wordnet(expand='') has expand lexicons {[x.specifier() for x in w0.expanded_lexicons()]}")
            allspecs = sorted(m.lex, key=lambda s_: m.lex[s_].order)
            d = _diff(View(m, allspecs, True, []).observe(), observe(w0, rec))
            rec.event('expand.default-mode-off')
            if d:
                rec.violation('observation:' + d[0].split('::')[0][:40], "Wordnet(expand='') (default mode, expansion off): " + fmt(d))
            rec.state(case['seed'])
    finally:
        env.rmtree(work)
    rec.done(doc.canonical_hash([L, E1, E2] + ([E1b] if E1b else [])), nontrivial=borrowed > 0 and placeholders > 0,
             sample={'declared': reqs, 'borrowed_relations': borrowed, 'placeholders': placeholders})


def _pk(obj):
    if obj.id == '*INFERRED*':
        i = obj.ili
        return f'*INFERRED*::{i.id if i is not None else None}'
    return f'{obj.lexicon().specifier()}::{obj.id}'


def hyp_targets(view, node):
    """hypernym targets of a real synset key or of a placeholder key, in the view's scope"""
    scope = set(view.sel)
    if node.startswith('*INFERRED*::'):
        ili = node.split('::', 1)[1]
        return list(dict.fromkeys(t for r_, t in view.expanded_synset_relations(ili, None, scope) if r_['type'] in HYP))
    ss = view.t.synsets[node]
    own = [r_['tgt'] for r_ in view.own_synset_relations(node) if r_['type'] in HYP]
    exp = [t for r_, t in view.expanded_synset_relations(ss['ili'], node, scope) if r_['type'] in HYP]
    return list(dict.fromkeys(own + exp))


def model_paths(view, key, cap=2000):
    out, n = [], 0
    stack = [([t], {key, t}) for t in hyp_targets(view, key) if t != key]
    while stack:
        path, seen = stack.pop()
        n += 1
        if n > cap:
            return None
        nxt = [t for t in hyp_targets(view, path[-1]) if t not in seen]
        if not nxt:
            out.append(path)
        for t in nxt:
            stack.append((path + [t], seen | {t}))
    return out
