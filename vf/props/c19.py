"""C19 - loading an ILI index only updates ILI status and definitions.

Histories interleave up to 3 lexicon adds and up to 3 index adds (plain file, package directory, .gz; ILI/ili header,
missing status/definition columns, CRLF, empty definitions, made-up statuses, ids no lexicon uses).  After every
operation: the ilis table == model (file rows override status+definition, lexicons only create 'presupposed' entries for
unknown ids), full observation of every lexicon == model (which synset carries which ILI, proposed ILIs, all content),
wn.ilis(status=..) == model; an index loaded twice leaves the table dump unchanged; the two orders
"index then lexicons" / "lexicons then index" end with the same statuses and definitions.
"""

import gzip
import random

from vf import env, wnio, dbdump
from vf.gen import doc
from vf.model.db import ModelDB
from vf.monitors.sql import _real_connect
from vf.obscheck import compare

RULE = ('one case = one history of 2-6 operations (lexicon adds and ILI-index adds in random interleaving) plus its mirrored order; '
        'distinct = hash of files+order; non-trivial = an index row changed the status or definition of an ILI that a lexicon uses')
ASSUMPTIONS = ['ILI metadata (not status/definition) is outside the statement']
FLOORS = {'*': {'ili.table.compared': 100, 'idempotent.compared': 30, 'order.compared': 30}}
N = {'quick': 400, 'thorough': 6000}
STATUSES = ['active', 'provisional', 'deprecated', 'weird status', 'presupposed']


def plan(tier, seed):
    return [{'seed': seed * 1000003 + i} for i in range(N[tier])] + [{'seed': seed * 1000003 + 777000 + i, 'kind': 'ascii-locale'}
                                                                      for i in range(2 if tier == 'quick' else 12)]


ASCII_LOCALE_SCRIPT = r'''
import json, sys
import wn
wn.config.data_directory = sys.argv[1]
out = {}
try:
    for f in sys.argv[3:]:
        wn.add(f, progress_handler=None)
    out['ilis'] = sorted([i.id, i.status, i.definition()] for i in wn.ilis() if i.id)
    out['definitions'] = sorted([s.id, s.definition()] for s in wn.synsets())
    wn.export(wn.lexicons(), sys.argv[2])
    wn.remove('*', progress_handler=None)
    wn.add(sys.argv[2], progress_handler=None)
    out['after_export'] = sorted([s.id, s.definition()] for s in wn.synsets())
except Exception as exc:
    out['error'] = type(exc).__name__ + ': ' + str(exc)[:200]
print(json.dumps(out))
'''


def ascii_locale(case, rec):
    """The same index and lexicon files read by a process whose locale encoding is ASCII (LC_ALL=C, UTF-8 mode and locale
    coercion off): the files are UTF-8 whatever the locale says, so statuses, definitions and the exported file must
    come out as in this process."""
    import json
    import os
    import subprocess
    import sys
    r = random.Random(case['seed'])
    work = env.mkdtemp('c19loc')
    try:
        texts = ['définition ü', '猫の定義', 'ελληνικά', 'naïve café', 'plain ascii']
        r.shuffle(texts)
        synsets = [{'id': f'lo-ss{j}', 'ili': f'i{j}', 'partOfSpeech': 'n', 'meta': None, 'definitions': [{'text': texts[j % len(texts)] + f' {j}', 'meta': None}]}
                   for j in range(4)]
        lex = {'id': 'lo', 'label': 'localé', 'language': 'fr', 'email': 'e', 'license': 'l', 'version': '1', 'meta': None, 'synsets': synsets}
        lp = wnio.write_resource({'lmf_version': '1.0', 'lexicons': [lex]}, work, random.Random(1), name='lo.xml', surface='plain')
        rows = [(f'i{j}', r.choice(['active', 'deprecated']), texts[(j + 1) % len(texts)] + f' index {j}') for j in r.sample(range(6), 4)]
        ip = work / 'index.tsv'
        ip.write_text('ili\tstatus\tdefinition\n' + ''.join('\t'.join(row) + '\n' for row in rows), encoding='utf-8')
        files = [str(ip), str(lp)] if r.random() < 0.5 else [str(lp), str(ip)]
        script = work / 'run.py'
        script.write_text(ASCII_LOCALE_SCRIPT)
        outs = {}
        for label, extra in (('utf-8', {'PYTHONUTF8': '1'}), ('ascii-locale', {'LC_ALL': 'C', 'LANG': 'C', 'PYTHONUTF8': '0', 'PYTHONCOERCECLOCALE': '0'})):
            d = work / f'db-{label}'
            d.mkdir()
            e = {k_: v for k_, v in os.environ.items() if not k_.startswith('LC_') and k_ not in ('LANG', 'PYTHONUTF8', 'PYTHONIOENCODING')}
            e.update(extra, PYTHONPATH=str(env.REPO))
            p_ = subprocess.run([sys.executable, str(script), str(d), str(work / f'export-{label}.xml')] + files, env=e, capture_output=True,
                                text=True, timeout=600)
            try:
                outs[label] = json.loads(p_.stdout.strip().splitlines()[-1])
            except Exception:
                rec.harness_errors.append(f'ascii-locale scenario ({label}): rc {p_.returncode} {p_.stderr[-800:]}')
                return
        rec.event('ascii-locale.compared')
        want_ilis = {f'i{j}': ['presupposed', None] for j in range(4)}
        for i_, st, df in rows:
            want_ilis[i_] = [st, df]
        want = sorted([k_] + v for k_, v in want_ilis.items() if k_ in {f'i{j}' for j in range(4)})
        if outs['utf-8'].get('error') or outs['utf-8'].get('ilis') != want:
            rec.violation('ili-table', f"statuses/definitions of the ILIs the lexicon uses: {outs['utf-8'].get('error') or outs['utf-8'].get('ilis')}, expected {want}")
        if outs['ascii-locale'] != outs['utf-8']:
            rec.violation('locale-dependent', f"under an ASCII locale the same files give {json.dumps(outs['ascii-locale'])[:500]}, under UTF-8 "
                          f"{json.dumps(outs['utf-8'])[:300]}")
    finally:
        env.rmtree(work)
    rec.done(['ascii-locale', case['seed']], nontrivial=True, sample={'files': 'index + lexicon with non-ASCII definitions, ASCII locale'})


def ili_file(r, pool):
    cols = r.choice([['ili', 'status', 'definition'], ['ILI', 'status', 'definition'], ['ili', 'definition'],
                     ['ili', 'status'], ['ili', 'definition', 'status'], ['ILI', 'Status', 'Definition']])
    eol = r.choice(['\n', '\n', '\r\n'])
    rows = []
    lines = ['\t'.join(cols)]
    for ili in r.sample(pool, r.randint(1, len(pool))):
        row = {'ili': ili}
        vals = []
        for c in cols:
            lc = c.lower()
            if lc == 'ili':
                vals.append(ili)
            elif lc == 'status':
                row['status'] = r.choice(STATUSES[:4])
                vals.append(row['status'])
            elif lc == 'definition':
                row['definition'] = r.choice(['', 'a definition', 'définition ü 猫', 'with "quotes" & <tags>', 'x' * 50, '"quoted" at the start',
                                              '"unbalanced quote at the start', "'single' quotes, commas, and; semicolons",
                                              # characters that str.splitlines() treats as line ends although a file does not
                                              'line\u2028separator', 'next\x85line and form\x0cfeed', 'unit\x1fsep group\x1dsep', 'para\u2029graph'])
                vals.append(row['definition'])
        if r.random() < 0.1 and len(vals) > 1:
            # short line: trailing columns missing
            dropped = cols[len(vals) - 1].lower()
            vals = vals[:-1]
            row.pop(dropped, None)
        lines.append('\t'.join(vals))
        rows.append(row)
    text = eol.join(lines) + eol
    return text, rows


def ilis_table(path):
    conn = _real_connect('file:' + __import__('urllib.parse').parse.quote(str(path)) + '?mode=ro', uri=True)
    try:
        return {i: [s, d] for i, s, d in conn.execute(
            'SELECT i.id, s.status, i.definition FROM ilis i JOIN ili_statuses s ON s.rowid = i.status_rowid')}
    finally:
        conn.close()


def run_ops(rec, ops, lexres, paths, ilifiles, final_only=False):
    import wn
    m = ModelDB()
    changed_used = False
    with env.FreshDB() as fdb:
        for op in ops:
            if op[0] == 'lex':
                wnio.add(paths[op[1]])
                m.add_resource(lexres[op[1]])
                rec.event('op.add-lexicon')
            else:
                path, rows = ilifiles[op[1]]
                used = {ss['ili'] for inst in m.lex.values() for ss in inst.doc.get('synsets', []) if ss.get('ili')}
                for row in rows:
                    old = m.ilis.get(row['ili'])
                    new = [row.get('status', 'active'), row.get('definition')]
                    if row['ili'] in used and old != new:
                        changed_used = True
                before = dbdump.dump(fdb.path)
                wnio.add(path)
                m.add_ili(rows)
                rec.event('op.add-index')
                # nothing but the ILI tables may have changed
                after = dbdump.dump(fdb.path)
                for t in after:
                    if t not in ('ilis', 'ili_statuses') and after[t] != before.get(t):
                        rec.violation('index-load-changed-table', f'loading an ILI index changed table {t}: '
                                      + str(dbdump.first_difference({t: before.get(t)}, {t: after[t]})))
                # which rowid carries which id must be stable (synsets reference rowids)
                old_ids = {row[0]: row[1] for row in before['ilis']}
                new_ids = {row[0]: row[1] for row in after['ilis']}
                if any(new_ids.get(rid) != iid for rid, iid in old_ids.items()):
                    rec.violation('ili-rowid-changed', 'an existing ILI row changed its rowid/id on index load')
                # idempotence
                wnio.add(path)
                again = dbdump.dump(fdb.path)
                rec.event('idempotent.compared')
                if again != after:
                    rec.violation('index-load-not-idempotent', 'loading the same ILI file again changed the database: '
                                  + str(dbdump.first_difference(after, again)))
            if final_only:
                continue
            table = ilis_table(fdb.path)
            rec.event('ili.table.compared')
            if table != m.ilis:
                diffs = {k_: (m.ilis.get(k_), table.get(k_)) for k_ in set(table) | set(m.ilis) if table.get(k_) != m.ilis.get(k_)}
                rec.violation('ili-table', f'ilis table differs from the model after {op}: (model, real) {dict(list(diffs.items())[:3])} ops={ops}')
            for key, msg in dbdump.audit(fdb.path):
                rec.violation('audit:' + key, msg)
            for sp in sorted(m.lex):
                compare(rec, m, [sp], label=f'C19 after {op}', relations=False)
            # wn.ilis(status=...)
            used = {}
            for inst in m.lex.values():
                for ss in inst.doc.get('synsets', []):
                    if ss.get('ili') and ss['ili'] != 'in':
                        used[ss['ili']] = m.ilis[ss['ili']][0]
            universe = used if m.lex else {i: v[0] for i, v in m.ilis.items()}
            for st in set(STATUSES):
                got = sorted(i.id for i in wn.ilis(status=st))
                want = sorted(i for i, s in universe.items() if s == st)
                rec.call('wn.ilis(status)')
                if got != want:
                    rec.violation('ilis-status-filter', f'wn.ilis(status={st!r}) = {got}, model {want}')
            # ... and the proposed ones: one per synset declared with ili="in", never touched by an index file
            want_p = sorted(str(((ss.get('ili_definition') or {}).get('text'))) for inst in m.lex.values()
                            for ss in inst.doc.get('synsets', []) if ss.get('ili') == 'in')
            got_p = wn.ilis(status='proposed')
            rec.call('wn.ilis(proposed)')
            rec.event('ilis.proposed.compared')
            if sorted(str(x.definition()) for x in got_p) != want_p or any(x.id is not None or x.status != 'proposed' for x in got_p):
                rec.violation('ilis-status-filter', f"wn.ilis(status='proposed') = {[(x.id, x.status, x.definition()) for x in got_p]}, "
                              f'model definitions {want_p}')
            if m.lex:
                for i in sorted(used)[:4]:
                    x = wn.ili(i)
                    if [x.status, x.definition()] != m.ilis[i]:
                        rec.violation('ili-lookup', f'wn.ili({i!r}) reports {[x.status, x.definition()]}, model {m.ilis[i]}')
        return ilis_table(fdb.path), m, changed_used


def run_case(case, rec):
    if case.get('kind') == 'ascii-locale':
        return ascii_locale(case, rec)
    import wn._add as wnadd
    old_batch = getattr(wnadd, 'BATCH_SIZE', None)
    if old_batch is not None and case['seed'] % 4:
        wnadd.BATCH_SIZE = [None, 1, 2, 3][case['seed'] % 4]      # index rows cross batch boundaries
        rec.event('batch.small')
    try:
        _run_case(case, rec)
    finally:
        if old_batch is not None:
            wnadd.BATCH_SIZE = old_batch


def _run_case(case, rec):
    r = random.Random(case['seed'])
    pool = [f'i{n}' for n in range(1, 9)]
    prof = doc.Profile(max_entries=3, max_synsets=5, ili='shared', ili_pool=pool[:6], idstyle='prefixed', relations=False)
    work = env.mkdtemp('c19')
    try:
        lexres, paths = {}, {}
        for i in range(3):
            v = r.choice(['1.0', '1.1', '1.3'])
            lx = doc.gen_lexicon(r, v, f'lx{i}', '1', prof)
            res = {'lmf_version': v, 'lexicons': [lx]}
            lexres[i] = res
            paths[i] = wnio.write_resource(res, work, random.Random(i), name=f'lx{i}.xml')
        ilifiles = {}
        for j in range(2):
            text, rows = ili_file(r, pool)
            kind = r.choice(['plain', 'package', 'gz'])
            if kind == 'plain':
                p = work / f'ili{j}.tsv'
                p.write_bytes(text.encode('utf-8'))
            elif kind == 'gz':
                p = work / f'ili{j}.tsv.gz'
                p.write_bytes(gzip.compress(text.encode('utf-8')))
            else:
                p = work / f'ilipkg{j}'
                p.mkdir()
                (p / 'cili.tsv').write_bytes(text.encode('utf-8'))
                (p / 'README.md').write_text('x')
            ilifiles[j] = (p, rows)
            rec.event('ilifile.' + kind)
        n_lex = r.randint(1, 3)
        n_idx = r.randint(1, 2)
        ops = [('lex', i) for i in range(n_lex)] + [('idx', j) for j in range(n_idx)]
        r.shuffle(ops)
        table1, m1, changed = run_ops(rec, ops, lexres, paths, ilifiles)
        # the two extreme orders must agree on statuses and definitions
        first_idx = [o for o in ops if o[0] == 'idx'] + [o for o in ops if o[0] == 'lex']
        first_lex = [o for o in ops if o[0] == 'lex'] + [o for o in ops if o[0] == 'idx']
        ta, _, _ = run_ops(rec, first_idx, lexres, paths, ilifiles, final_only=True)
        tb, _, _ = run_ops(rec, first_lex, lexres, paths, ilifiles, final_only=True)
        rec.event('order.compared')
        if ta != tb:
            diffs = {k_: (ta.get(k_), tb.get(k_)) for k_ in set(ta) | set(tb) if ta.get(k_) != tb.get(k_)}
            rec.violation('ili-order-dependent', f'index-then-lexicons vs lexicons-then-index: {dict(list(diffs.items())[:3])}')
        rec.state(sorted(table1.items()))
    finally:
        env.rmtree(work)
    rec.done([str(o) for o in ops] + [case['seed']], nontrivial=changed,
             sample={'ops': [list(o) for o in ops], 'index_rows': {j: rows[:3] for j, (p, rows) in ilifiles.items()}})
