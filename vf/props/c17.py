"""C17 - Morphy returns only valid lemmas when initialized and all candidates otherwise.

Lexicons whose lemmas look inflected, irregular forms shared between words and parts of speech, a/s entries, lemmas that
are a bare suffix.  Queries = every stored lemma/form, every rule suffix attached to every stem, the bare suffixes,
unrelated strings; pos in {None, n, v, a, s, r, t, x}.
  uninitialized: result must equal {pos: {form}} + every rule output per part of speech (rules transcribed as data);
  initialized:   must-set <= result <= lemmas of that part of speech, no key outside the request;
  Wordnet(lemmatizer=either, normalizer=None): result == union over the proposed (pos, form) pairs of what each finds.
"""

import random

from vf import env, wnio
from vf.model import search as ms

RULE = ('one evaluation = one (lexicon, query, pos, mode) tuple, mode in {uninitialized, initialized, wordnet+uninitialized, '
        'wordnet+initialized}; distinct = the tuple; non-trivial = some detachment rule applies to the query or the query is a stored form')
ASSUMPTIONS = ['the detachment rules are those of docs/PWN morphy plus the four Wn additions (ces->x, ves->f, ives->ife, xes->xis), transcribed as data']
FLOORS = {'*': {'morphy.compared': 20000, 'morphy.rule-applied': 5000, 'morphy.init.nonempty': 500}}
N = {'quick': 60, 'thorough': 1500}
STEMS = ['ax', 'axe', 'axis', 'bus', 'wolf', 'wife', 'kniv', 'box', 'quiz', 'church', 'bush', 'man', 'woman', 'fl', 'fly', 'e', 'y',
         's', 'es', 'men', 'ing', 'ed', 'er', 'est', 'big', 'bigg', 'late', 'lat', 'run', 'runn', 'go', 'goe', 'matrix', 'matri',
         'lemma', 'Geese', 'goose', '情報', 'x', 'ss']
SUFF = ['s', 'ces', 'ses', 'ves', 'ives', 'xes', 'zes', 'ches', 'shes', 'men', 'ies', 'es', 'ed', 'ing', 'er', 'est']
LPOS = ['n', 'v', 'a', 's', 'r', 'n', 'v', 'n', 'v', 't', 'c', 'p', 'x', 'u']
QPOS = [None, 'n', 'v', 'a', 's', 'r', 't', 'x']


def plan(tier, seed):
    return [{'seed': seed * 1000003 + i, 'nq': 120 if tier == 'quick' else 250} for i in range(N[tier])]


def gen(r):
    entries, words = [], []
    synsets = [{'id': f'ss-{p}', 'ili': '', 'partOfSpeech': p, 'meta': None} for p in 'nvasrtcpxu']
    for i in range(r.randint(4, 16)):
        pos = r.choice(LPOS)
        lemma = r.choice(STEMS) + (r.choice(SUFF) if r.random() < 0.25 else '')
        others = []
        for _ in range(r.choice([0, 0, 1, 2])):
            f = r.choice(STEMS) + (r.choice(SUFF) if r.random() < 0.5 else '')
            if f != lemma and f not in others:
                others.append(f)
        e = {'id': f'e{i}', 'meta': None, 'lemma': {'writtenForm': lemma, 'partOfSpeech': pos},
             'senses': [{'id': f'e{i}-s', 'synset': f'ss-{pos}', 'meta': None}]}
        if others:
            e['forms'] = [{'writtenForm': f} for f in others]
        entries.append(e)
        words.append((pos, lemma, others, f'e{i}'))
    # planted collisions: an irregular form listed under one word that a detachment rule also reduces to the lemma of
    # another word of the same part of speech, and a lemma that is at the same time a listed form of another word
    families = [[('n', 'axis', ['axes']), ('n', 'axe', []), ('n', 'ax', [])], [('v', 'lie', ['lies']), ('v', 'ly', [])],
                [('n', 'basis', ['bases']), ('n', 'base', [])], [('v', 'found', []), ('v', 'find', ['found'])],
                [('a', 'bad', ['worse']), ('a', 'wors', [])], [('s', 'damp', []), ('s', 'dampe', ['damper'])]]
    for fam in r.sample(families, r.randint(0, 3)):
        for pos, lemma, others in fam:
            i = len(entries)
            e = {'id': f'e{i}', 'meta': None, 'lemma': {'writtenForm': lemma, 'partOfSpeech': pos},
                 'senses': [{'id': f'e{i}-s', 'synset': f'ss-{pos}', 'meta': None}]}
            if others:
                e['forms'] = [{'writtenForm': f} for f in others]
            entries.append(e)
            words.append((pos, lemma, others, f'e{i}'))
    lex = {'id': 'mo', 'label': 'morphy', 'language': 'en', 'email': 'e', 'license': 'l', 'version': '1', 'meta': None,
           'entries': entries, 'synsets': synsets}
    return lex, words


def run_case(case, rec):
    import wn
    from wn.morphy import Morphy
    r = random.Random(case['seed'])
    lex, words = gen(r)
    work = env.mkdtemp('c17')
    try:
        with env.FreshDB():
            wnio.add(wnio.write_resource({'lmf_version': '1.0', 'lexicons': [lex]}, work, random.Random(1)))
            w0 = wn.Wordnet('mo:1')
            mi, mu = Morphy(w0), Morphy()
            qs = set()
            for pos, lemma, others, _ in words:
                for f in [lemma] + others:
                    qs.add(f)
                    for sfx in r.sample(SUFF, 5):
                        qs.add(f + sfx)
                    for p in 'nva':
                        for sfx, rep in ms.RULES[p]:
                            if f.endswith(rep) and rep != '' and r.random() < 0.3:
                                qs.add(f[:len(f) - len(rep)] + sfx)
            qs |= set(SUFF) | {'zzz', 'Geese', 'x'}
            qs = sorted(qs)
            r.shuffle(qs)
            qs = qs[:case['nq']]
            model_w = [(p, lm, o) for p, lm, o, _ in words]
            search = ms.SearchModel([{'key': f'mo:1::{eid}', 'pos': p, 'forms': [lm] + o, 'senses': [(f'mo:1::{eid}-s', f'mo:1::ss-{p}', p)]}
                                     for p, lm, o, eid in words])
            wu = wn.Wordnet('mo:1', lemmatizer=mu, normalizer=None)
            wi = wn.Wordnet('mo:1', lemmatizer=mi, normalizer=None)
            for q in qs:
                for pos in QPOS:
                    applied = any(ms.rule_outputs(q, p) for p in (ms.MORPHY_POS if pos is None else [pos] if pos in ms.RULES else []))
                    stored = any(q == lm or q in o for _, lm, o in model_w)
                    if applied:
                        rec.event('morphy.rule-applied')
                    # ---- uninitialized: exact
                    got = mu(q, pos)
                    want = ms.morphy_uninitialized(q, pos)
                    rec.event('morphy.compared')
                    rec.call('Morphy()')
                    if got != want:
                        rec.violation('morphy-uninitialized', f'Morphy()({q!r}, {pos!r}) = {_fmt(got)}, model {_fmt(want)}',
                                      {'query': q, 'pos': pos})
                    # ---- initialized: bounds
                    got = mi(q, pos)
                    must, may = ms.morphy_initialized_bounds(q, pos, model_w)
                    rec.event('morphy.compared')
                    rec.call('Morphy(wordnet)')
                    if got:
                        rec.event('morphy.init.nonempty')
                    bad = None
                    for p, vals in got.items():
                        if p not in may:
                            bad = f'part of speech {p!r} outside the request'
                        elif not vals <= may[p]:
                            bad = f'{sorted(vals - may[p])} are not lemmas of part of speech {p!r}'
                        elif not vals:
                            bad = f'empty set under {p!r}'
                    for p, vals in must.items():
                        if not vals <= got.get(p, set()):
                            bad = f'{sorted(vals - got.get(p, set()))} missing under {p!r}'
                    if bad:
                        rec.violation('morphy-initialized', f'Morphy(wordnet)({q!r}, {pos!r}) = {_fmt(got)}: {bad} (must {_fmt(must)})',
                                      {'query': q, 'pos': pos})
                    # ---- as lemmatizer of a Wordnet (no normalizer: no back-off can blur which pair found what)
                    for name, w, lem in (('uninitialized', wu, mu), ('initialized', wi, mi)):
                        for kind, meth in (('words', w.words), ('synsets', w.synsets)):
                            res = meth(q, pos)
                            gk = [f'{x.lexicon().specifier()}::{x.id}' for x in res]
                            want = search.search(kind, q, pos, False, True, lem)
                            rec.event('morphy.compared')
                            rec.call(f'Wordnet(lemmatizer={name}).{kind}')
                            if len(gk) != len(set(gk)):
                                rec.violation('lemmatized-search-duplicates', f'{name}: {kind}({q!r},{pos!r}) returns duplicates {gk}')
                            if set(gk) != want:
                                rec.violation('lemmatized-search', f'Wordnet(lemmatizer={name}).{kind}({q!r}, {pos!r}) = {sorted(set(gk))}, '
                                              f'union over proposed pairs {sorted(want)}')
                    rec.done([case['seed'], q, pos], nontrivial=applied or stored,
                             sample={'query': q, 'pos': pos, 'uninitialized': _fmt(want if False else mu(q, pos)), 'initialized_must': _fmt(must)})
            rec.state(case['seed'])
    finally:
        env.rmtree(work)


def _fmt(d):
    return {str(k): sorted(v) for k, v in d.items()}
