"""C14 - similarity metrics equal their formulas, are symmetric and bounded.

Graphs as in C13 (all 3-node DAGs, loop-free 4-node classes, random DAGs and cyclic graphs), all ordered pairs,
simulate_root in {False, True}, information-content weights from wn.ic.compute on random corpora and arbitrary
positive weights, part-of-speech labellings incl. a/s mixes and deliberately incompatible pairs.
path and lch are exact everywhere (they only need the shortest-path length); wup/res/jcn/lin are exact on DAGs, where
the value must be the formula evaluated at *some* lowest common hypernym of the model (under simulate_root the
virtual root may or may not be counted in k); on cyclic graphs only bounds, symmetry and error behaviour are demanded.
"""

import math
import random

from vf import env, wnio
from vf.gen import graphs
from vf.model.taxo import G, ROOT

ID = 'C14'
RULE = ('one evaluation = one graph with one labelling and one weight table: all ordered pairs x 6 metrics x simulate_root; distinct = '
        'edge list + labelling + weights seed; non-trivial = the graph has an edge and at least one pair has a common hypernym other than itself')
ASSUMPTIONS = ['Lin similarity is 2 IC(c0) / (IC(c1) + IC(c2)) (the metric of the paper and the only symmetric reading; the formula printed in the docs has a typo)',
               'with several lowest common hypernyms the metric may use any of them (the documentation says "the" lowest common hypernym)',
               'under simulate_root, k of Wu-Palmer may or may not count the virtual root (not documented)']
FLOORS = {'*': {'metric.compared': 20000, 'symmetry.checked': 5000, 'error.expected': 300, 'multi-lcs.pairs': 10}}
CHUNK = 40


def plan(tier, seed):
    cases = []
    n3 = 2 + 16 + 512
    for start in range(0, n3, CHUNK):
        cases.append({'kind': 'labelled<=3', 'start': start, 'count': CHUNK, 'posmode': (start // CHUNK) % 4, 'seed': seed})
    for start in range(0, 218, CHUNK):
        cases.append({'kind': 'iso4-loopfree', 'start': start, 'count': CHUNK, 'posmode': (start // CHUNK) % 4, 'seed': seed})
    nr = 120 if tier == 'quick' else 4000
    for start in range(0, nr, 20):
        cases.append({'kind': 'random', 'start': start, 'count': 20, 'posmode': (start // 20) % 4, 'seed': seed})
    cases.append({'kind': 'pytest-under-contracts'})
    return cases


def graphs_of(case):
    if case['kind'] == 'labelled<=3':
        allg = list(graphs.all_labelled(1)) + list(graphs.all_labelled(2)) + list(graphs.all_labelled(3))
        return allg[case['start']:case['start'] + case['count']]
    if case['kind'] == 'iso4-loopfree':
        return graphs.up_to_isomorphism(4, loops=False)[case['start']:case['start'] + case['count']]
    out = []
    for i in range(case['start'], case['start'] + case['count']):
        r = random.Random(case['seed'] * 7919 + i)
        out.append(graphs.random_graph(r, n=r.randint(4, 9), kind=r.choice(['forest', 'diamonds', 'diamonds', 'multiroot', 'dag', 'cyclic'])))
    return out


def pos_fn(mode, n):
    if mode == 0:
        return lambda j: 'n'
    if mode == 1:
        return lambda j: 'v'
    if mode == 2:
        return lambda j: 'a' if j % 2 == 0 else 's'
    return lambda j: 'n' if j < max(1, n - 1) else 'v'     # one incompatible node (without edges to the others, see build)


def close(a, b, rel=1e-12):
    if a == b:
        return True
    if math.isinf(a) or math.isinf(b) or math.isnan(a) or math.isnan(b):
        return False
    return abs(a - b) <= rel * max(abs(a), abs(b), 1e-300)


def run_case(case, rec):
    if case.get('kind') == 'pytest-under-contracts':
        from vf import contracts_case
        return contracts_case.run(rec, ID)
    import wn
    import wn.ic
    from wn import similarity as sim
    gs = graphs_of(case)
    if not gs:
        return
    r = random.Random(case['start'] + 17)
    work = env.mkdtemp('c14')
    try:
        with env.FreshDB():
            prepared = []
            for i, (n, edges) in enumerate(gs):
                pos_of = pos_fn(case['posmode'], n)
                if case['posmode'] == 3:
                    edges = [(u, v) for u, v in edges if pos_of(u) == pos_of(v)]   # hypernymy stays inside one part of speech
                prepared.append((n, edges, pos_of))
            lexs = [graphs.lexicon_for(i, (n, e), p, None) for i, (n, e, p) in enumerate(prepared)]
            for chunk in range(0, len(lexs), 20):
                res = {'lmf_version': '1.0', 'lexicons': lexs[chunk:chunk + 20]}
                wnio.add(wnio.write_resource(res, work, random.Random(1), name=f'g{chunk}.xml', surface='plain'))
            for i, (n, edges, pos_of) in enumerate(prepared):
                check_graph(rec, r, wn, sim, i, G(n, edges), edges, pos_of)
    finally:
        env.rmtree(work)


def check_graph(rec, r, wn, sim, gid, g, edges, pos_of):
    import wn.ic
    n = g.n
    lid = f'g{gid}'
    w = wn.Wordnet(f'{lid}:1')
    ss = {j: w.synset(f'{lid}-n{j}') for j in range(n)}
    if any(g.paths(j) is None for j in range(n)):
        return
    dag = g.acyclic()
    what = f'graph n={n} edges={edges} pos={[pos_of(j) for j in range(n)]}'
    # weights: from a random corpus through the real compute (validated in C15) or arbitrary positive numbers
    tol = 1e-12
    if r.random() < 0.12:
        # web-scale counts that nearly tie: the information content of a synset and of its hypernym then differ in the
        # tenth digit, which is a difference (jcn finite and huge), not a tie (jcn infinite).  The formula is ill-conditioned
        # there, so values are compared to four digits only - what matters is finite versus infinite
        freq = {p: {None: 0.0} for p in 'nvar'}
        for j in range(n):
            p = 'a' if pos_of(j) == 's' else pos_of(j)
            freq[p][ss[j].id] = r.choice([1e12, 1e12 + 900.0, 1e12 + 1800.0, 1e12 + 900.0, 2e12])
        for p in freq:
            freq[p][None] = sum(v for k, v in freq[p].items() if k is not None) + 1e12
        wsrc = 'near-ties'
        tol = 1e-4
    elif r.random() < 0.6:
        corpus = [f'w{gid}x{r.randrange(n)}' for _ in range(r.randint(0, 12))]
        freq = wn.ic.compute(corpus, w, distribute_weight=r.choice([True, False]), smoothing=r.choice([1.0, 0.1]))
        wsrc = 'compute'
    else:
        freq = {p: {None: 0.0} for p in 'nvar'}
        for j in range(n):
            p = 'a' if pos_of(j) == 's' else pos_of(j)
            freq[p][ss[j].id] = r.choice([1.0, 2.0, 3.5, 10.0])
        for p in freq:
            freq[p][None] = sum(v for k, v in freq[p].items() if k is not None) + r.choice([0.0, 1.0])
            if freq[p][None] == 0:
                freq[p][None] = 1.0
        wsrc = 'arbitrary'

    def ic(x):
        p = 'a' if pos_of(x) == 's' else pos_of(x)
        return -math.log(freq[p][ss[x].id] / freq[p][None])

    depth_arg = max(1, max((g.depth_max(j) for j in range(n)), default=0))
    any_common = False
    for a in range(n):
        for b in range(n):
            compatible = (pos_of(a) in 'as' and pos_of(b) in 'as') or pos_of(a) == pos_of(b)
            for sr in (False, True):
                results = {}
                for name in ('path', 'wup', 'lch', 'res', 'jcn', 'lin'):
                    if sr and name in ('res', 'jcn', 'lin'):
                        continue
                    f = getattr(sim, name)
                    args = (ss[a], ss[b])
                    try:
                        if name == 'lch':
                            v = f(*args, depth_arg, simulate_root=sr)
                        elif name in ('path', 'wup'):
                            v = f(*args, simulate_root=sr)
                        else:
                            v = f(*args, freq)
                        results[name] = ('ok', v)
                    except wn.Error as exc:
                        results[name] = ('wn.Error', str(exc))
                    except KeyError as exc:
                        results[name] = ('KeyError', str(exc))
                    rec.event('metric.compared')
                    rec.call('similarity.' + name)
                    if not sr and name in ('path', 'wup', 'lch'):
                        # documented default: simulate_root=False
                        try:
                            dv = ('ok', f(*args, depth_arg) if name == 'lch' else f(*args))
                        except wn.Error as exc:
                            dv = ('wn.Error', str(exc))
                        except KeyError as exc:
                            dv = ('KeyError', str(exc))
                        rec.event('default.checked')
                        if dv != results[name]:
                            rec.violation('default-simulate_root', f'{what}: {name}(n{a}, n{b}) without simulate_root gives {dv}, with '
                                          f'simulate_root=False {results[name]}')
                p = g.shortest_len(a, b, sr)
                lcs = g.lowest_common(a, b, sr)
                lcs_nosr = g.lowest_common(a, b, False)
                if len(lcs) > 1:
                    rec.event('multi-lcs.pairs')
                if lcs - {a, b}:
                    any_common = True
                for name, (status, v) in results.items():
                    here = f'{what} weights={wsrc}: {name}(n{a}, n{b}, simulate_root={sr})'
                    if not compatible:
                        rec.event('error.expected')
                        if status != 'wn.Error':
                            rec.violation('incompatible-pos-accepted', f'{here} = {v!r} although the parts of speech differ')
                        continue
                    if status == 'KeyError':
                        key = 'ic-satellite-keyerror' if 's' in (pos_of(a), pos_of(b)) or any(pos_of(c) == 's' for c in lcs_nosr if c != ROOT) else 'metric-keyerror'
                        rec.violation(key, f'{here} raised KeyError {v}')
                        continue
                    # ---- expected errors
                    if name == 'path':
                        want_err = False
                    elif name in ('lch',):
                        want_err = p is None
                    elif name == 'wup':
                        want_err = not lcs
                    else:
                        want_err = not lcs_nosr
                    if want_err:
                        rec.event('error.expected')
                        if status != 'wn.Error':
                            rec.violation(f'{name}:no-error', f'{here} = {v!r} although the synsets share no hypernym')
                        continue
                    if status != 'ok':
                        rec.violation(f'{name}:error', f'{here} raised {status}: {v}')
                        continue
                    # ---- values
                    if name == 'path':
                        want = [1 / (p + 1) if p is not None else 0.0]
                    elif name == 'lch':
                        want = [-math.log((p + 1) / (2 * depth_arg))]
                    elif name == 'wup':
                        if not dag:
                            want = None
                        else:
                            want = []
                            for c in lcs:
                                i_, j_ = g.shortest_len(a, c, sr) if c != ROOT else g.root_dist(a), g.shortest_len(b, c, sr) if c != ROOT else g.root_dist(b)
                                k = (0 if c == ROOT else g.depth_max(c, False)) + 1
                                want.append(2 * k / (i_ + j_ + 2 * k))
                                if sr and c != ROOT:
                                    want.append(2 * (k + 1) / (i_ + j_ + 2 * (k + 1)))
                    else:
                        if not dag:
                            want = None
                        else:
                            want = []
                            ic1, ic2 = ic(a), ic(b)
                            # documented: c0 is the lowest common hypernym "with the highest information content weight",
                            # i.e. the largest entry of the weight table among them (ties: any of the tied ones)
                            pw = 'a' if pos_of(a) == 's' else pos_of(a)
                            top = max((freq[pw][ss[c].id] for c in lcs_nosr), default=None)
                            for c in [c_ for c_ in lcs_nosr if freq[pw][ss[c_].id] == top]:
                                ic0 = ic(c)
                                if name == 'res':
                                    want.append(ic0)
                                elif name == 'jcn':
                                    if ic1 == ic2 == ic0 == 0:
                                        want.append(0)
                                    elif ic1 + ic2 == 2 * ic0:
                                        want.append(float('inf'))
                                    else:
                                        want.append(1 / (ic1 + ic2 - 2 * ic0))
                                else:
                                    want.append(0.0 if (ic1 == 0 or ic2 == 0) else 2 * ic0 / (ic1 + ic2))
                    if want is not None and not any(close(v, x, tol) for x in want):
                        rec.violation(f'{name}:value', f'{here} = {v!r}, formula gives {want} (shortest path {p}, lowest common hypernyms {sorted(map(str, lcs))})')
                    # ---- bounds
                    if name == 'path' and not (0 <= v <= 1 and (v == 1) == (a == b or p == 0) and (v == 0) == (p is None)):
                        rec.violation('path:bounds', f'{here} = {v!r} (shortest path {p})')
                    if name == 'wup' and not (0 < v <= 1 and (a != b or v == 1)):
                        rec.violation('wup:bounds', f'{here} = {v!r}')
                    if name in ('path', 'wup', 'lch') and a != b:
                        f = getattr(sim, name)
                        self_v = f(ss[a], ss[a], depth_arg, simulate_root=sr) if name == 'lch' else f(ss[a], ss[a], simulate_root=sr)
                        if v > self_v + 1e-12:
                            rec.violation(f'{name}:exceeds-self', f'{here} = {v!r} > {name}(n{a}, n{a}) = {self_v!r}')
                # ---- symmetry (ordered pairs: compare with the mirrored call once)
                if a < b and compatible:
                    for name, (status, v) in results.items():
                        if status == 'KeyError':
                            continue
                        f = getattr(sim, name)
                        try:
                            if name == 'lch':
                                v2 = f(ss[b], ss[a], depth_arg, simulate_root=sr)
                            elif name in ('path', 'wup'):
                                v2 = f(ss[b], ss[a], simulate_root=sr)
                            else:
                                v2 = f(ss[b], ss[a], freq)
                            s2 = 'ok'
                        except wn.Error:
                            s2, v2 = 'wn.Error', None
                        except KeyError:
                            continue
                        rec.event('symmetry.checked')
                        if s2 != status or (status == 'ok' and not close(v, v2)):
                            key = 'wup-asymmetric' if name == 'wup' else f'{name}:asymmetric'
                            rec.violation(key, f'{what}: {name}(n{a}, n{b}) = {v!r} but {name}(n{b}, n{a}) = {v2!r} (simulate_root={sr}, '
                                          f'lowest common hypernyms {sorted(map(str, lcs))})')
    rec.done([g.n, edges, [pos_of(j) for j in range(n)], wsrc], nontrivial=bool(edges) and any_common,
             sample={'nodes': n, 'edges': edges, 'pos': [pos_of(j) for j in range(n)], 'weights': wsrc})
