"""C03 - exporting a database and re-importing it preserves the lexicons.

db1 = generated non-extension lexicons added from a file in source version vs.
For every export version v:  load(export(db1, v)) must be equivalent to the v-projection of the
added documents, and db2 = empty + add(export) must be observationally identical to db1
(as far as v can express it).  Clashing identifiers must make export raise wn.Error.
"""

import random

from vf import env, wnio, dbdump
from vf.diff import diff, fmt, jsonable, GroupSeq
from vf.gen import doc
from vf.model import lmfnf
from vf.model.db import ModelDB, View
from vf.obscheck import norm_path, compare
from vf.observe import observe

RULE = ('one case = 1-3 generated non-extension lexicons (unique ids) in one source LMF version, exported in each of '
        '1.0-1.3, each export loaded (compared with the projected documents) and re-added to an empty database '
        '(observation compared with the first database and with the model); every 6th case has clashing ids and must be '
        'refused; distinct = document hash; non-trivial = at least 12 optional features present')
ASSUMPTIONS = ['frames nobody links to and the surface encoding of frames are not observable and not demanded',
               'ILIDefinition of a non-proposed ILI is not required to be exported (it is ILI inventory, not lexicon content)']
FLOORS = {'*': {'export.loaded': 40, 'reimport.compared': 40, 'clash.refused': 1}}
N = {'quick': 500, 'thorough': 6000}


def plan(tier, seed):
    return [{'seed': seed * 1000003 + i, 'lmfver': doc.LMF_VERSIONS[i % 4], 'clash': i % 6 == 5} for i in range(N[tier])]


def frame_links(lex):
    """{(sense id, frame string)} whatever the encoding."""
    links = set()
    by_id = {}
    for fr in lex.get('frames') or []:
        if fr.get('id'):
            by_id[fr['id']] = fr['subcategorizationFrame']
        for sid in fr.get('senses') or []:
            links.add((sid, fr['subcategorizationFrame']))
    for e in lex.get('entries') or []:
        sids = [s['id'] for s in e.get('senses') or []]
        for s in e.get('senses') or []:
            for fid in s.get('subcat') or []:
                if fid in by_id:
                    links.add((s['id'], by_id[fid]))
        for fr in e.get('frames') or []:
            for sid in (fr.get('senses') or sids):
                links.add((sid, fr['subcategorizationFrame']))
    return links


def export_form(lex, members_from=None):
    """Canonical lexicon with what the database legitimately forgets removed / normalised."""
    c = lmfnf.canon_lexicon(lex)
    c.pop('frames', None)
    for e in c.get('entries', []):
        e.pop('frames', None)
        for s in e.get('senses', []):
            s.pop('subcat', None)
            if 'relations' in s:
                s['relations'] = _relset(s['relations'])
    for ss in c.get('synsets', []):
        ss.pop('members', None)
        if 'relations' in ss:
            ss['relations'] = _relset(ss['relations'])
        if ss.get('ili') not in ('in',):
            ss.pop('ili_definition', None)
    # the order of LexicalEntry / Synset elements in the file carries no meaning (identifiers are unique here):
    # compared by id; order *inside* an entry or synset (forms, senses, definitions, examples) stays significant
    for key in ('entries', 'synsets'):
        items = c.get(key)
        if items and len({x['id'] for x in items}) == len(items):
            c[key] = {x['id']: x for x in items}
    return c


def _relset(rels):
    import json
    uniq = {json.dumps(r, sort_keys=True): r for r in rels}
    return [uniq[k] for k in sorted(uniq)]


def classify(d, v, srcv):
    p = norm_path(d[0])
    return 'export:' + p


from vf.obscheck import canon_real as canon_obs  # noqa: E402


def run_case(case, rec):
    import wn
    from wn import lmf
    r = random.Random(case['seed'])
    srcv = case['lmfver']
    clash = case['clash']
    prof = doc.Profile(idstyle='short' if clash else 'prefixed', p_meta=0.5, ili='unique')
    n_lex = 2 if clash else r.choice([1, 1, 2, 3])
    lexs = []
    for i in range(n_lex):
        req = [(r.choice(['dep', 'lq1']), '1')] if srcv != '1.0' and r.random() < 0.3 else None
        lexs.append(doc.gen_lexicon(r, srcv, f'lq{i}', r.choice(['1', '2.0']), prof, requires=req,
                                    idprefix=None))
    res = {'lmf_version': srcv, 'lexicons': lexs}
    feats = doc.features(res)
    specs = [f"{lx['id']}:{lx['version']}" for lx in lexs]
    work = env.mkdtemp('c03')
    try:
        with env.FreshDB() as db1:
            src = wnio.write_resource(res, work, random.Random(case['seed'] + 1))
            wnio.add(src)
            m1 = ModelDB()
            m1.add_resource(res)
            lexobjs = [wn.lexicons(lexicon=sp)[0] for sp in specs]
            if clash:
                ids = [set(_all_ids(lx)) for lx in lexs]
                really = bool(ids[0] & ids[1])
                try:
                    wn.export(lexobjs, work / 'clash.xml', version='1.1')
                    if really:
                        rec.violation('clash-not-refused', 'export accepted lexicons with clashing identifiers')
                except wn.Error:
                    if really:
                        rec.event('clash.refused')
                    else:
                        rec.violation('export-refused', 'export refused lexicons whose identifiers are unique')
                rec.done(doc.canonical_hash(res), nontrivial=really)
                return
            obs1 = {}
            for sp in specs:
                obs1[sp] = canon_obs(observe(wnio.wordnet([sp]), rec))
            exports = {}
            for v in doc.LMF_VERSIONS:
                out = work / f'export-{v}.xml'
                wn.export(lexobjs, out, version=v)
                rec.call('wn.export')
                exports[v] = out
                R = lmf.load(out, progress_handler=None)
                rec.event('export.loaded')
                rec.event('export.version.' + v)
                want = lmfnf.project(res, v)
                got_lex = {x['id']: x for x in R['lexicons']}
                if sorted(got_lex) != sorted(x['id'] for x in want['lexicons']):
                    rec.violation('export:lexicons', f'export as {v} contains lexicons {sorted(got_lex)}')
                    continue
                for lx_want in want['lexicons']:
                    lx_got = got_lex[lx_want['id']]
                    d = diff(export_form(lx_want), export_form(lx_got))
                    if d:
                        key = 'export:' + norm_path(d[0])
                        if norm_path(d[0]).endswith('/ili') and d[1] == 'in' and d[2] == '':
                            key = 'proposed-ili-without-definition'
                        rec.violation(key, f'load(export as {v}) of a {srcv} source: ' + fmt(d),
                                      {'path': d[0], 'version': v, 'expected': jsonable(d[1]), 'actual': jsonable(d[2])})
                    # sense-frame links
                    lg = frame_links(lx_got)
                    lw = frame_links(next(l for l in res['lexicons'] if l['id'] == lx_want['id']))
                    if lw != lg:
                        rec.violation('frame-links-lost', f'export as {v} of a {srcv} source: sense-frame links {sorted(lw - lg)[:3]} lost, '
                                      f'{sorted(lg - lw)[:3]} invented', {'version': v, 'source': srcv})
                    else:
                        rec.event('framelinks.compared', len(lw))
                    # member order
                    got_by_id = {x['id']: x for x in lx_got.get('synsets', [])}
                    for ss_w in lx_want.get('synsets', []):
                        ss_g = got_by_id.get(ss_w['id'])
                        if ss_g is None:
                            continue
                        if v != '1.0' and ss_g.get('members') is not None:
                            exp_members = View(m1, [f"{lx_want['id']}:{lx_want['version']}"]).synset_members(
                                f"{lx_want['id']}:{lx_want['version']}::{ss_w['id']}", {f"{lx_want['id']}:{lx_want['version']}"})
                            gs = GroupSeq([[k.split('::', 1)[1] for k in g] for g in exp_members])
                            d = diff(gs, ss_g.get('members') or [])
                            if d:
                                rec.violation('export:members', f'export as {v}: members of {ss_w["id"]}: ' + fmt(d))
            # a lexicon added *after* the database was already queried and exported (same process, same connection):
            # its export must be just as faithful (lookup values that are new to the database, dependencies on
            # lexicons installed earlier)
            late_prof = doc.Profile(idstyle='prefixed', p_meta=0.5, ili='unique', p_opt=0.8)
            late = doc.gen_lexicon(r, '1.3', 'late', '1', late_prof, requires=[(lexs[0]['id'], lexs[0]['version'])])
            for i_, ss in enumerate(late.get('synsets', [])):
                ss['lexfile'] = f'late.file{i_ % 2}-{case["seed"] % 7}'
            late['requires'][0]['url'] = 'https://mirror.example.org/' + lexs[0]['id']
            late_res = {'lmf_version': '1.3', 'lexicons': [late]}
            wnio.add(wnio.write_resource(late_res, work, random.Random(case['seed'] + 9), name='late.xml'))
            out = work / 'export-late.xml'
            wn.export(wn.lexicons(lexicon='late:1'), out, version='1.3')
            got_late = lmf.load(out, progress_handler=None)['lexicons'][0]
            rec.event('export.late-addition')
            d = diff(export_form(late), export_form(got_late))
            if d:
                rec.violation('export-late:' + norm_path(d[0]), 'export of a lexicon added after earlier queries/exports: ' + fmt(d),
                              {'path': d[0], 'expected': jsonable(d[1]), 'actual': jsonable(d[2])})
            if frame_links(late) != frame_links(got_late):
                rec.violation('frame-links-lost', 'export of a late-added lexicon lost sense-frame links')
            # re-import each export into an empty database
            for v, out in exports.items():
                with env.FreshDB() as db2:
                    wnio.add(out)
                    rec.call('wn.add')
                    for key, msg in dbdump.audit(db2.path):
                        rec.violation('audit:' + key, f'after re-import of the {v} export: {msg}')
                    m2 = ModelDB()
                    m2.add_resource(_reimport_model(res, v))
                    # ILI inventory of db1 (definitions an earlier lexicon attached to presupposed ILIs)
                    for sp in specs:
                        rec.event('reimport.compared')
                        compare(rec, m2, [sp], label=f'C03 re-import of the {v} export (source {srcv})',
                                quirks={})
                        if v != '1.0' and srcv != '1.0':
                            o2 = canon_obs(observe(wnio.wordnet([sp]), rec))
                            d = diff(_mask_ili(obs1[sp]), _mask_ili(o2))
                            rec.event('reimport.real-vs-real')
                            if d:
                                rec.violation('reimport:' + norm_path(d[0]),
                                              f're-import of the {v} export differs from the original database: ' + fmt(d),
                                              {'path': d[0], 'expected': jsonable(d[1]), 'actual': jsonable(d[2])})
                # restore db1 as the active database for the next export round
                env.use_db_dir(db1.dir)
        for f, n in feats.items():
            rec.event('feature.' + f, n)
    finally:
        env.rmtree(work)
    rec.done(doc.canonical_hash(res), nontrivial=len(feats) >= 12,
             sample={'source_version': srcv, 'lexicons': specs, 'features_present': len(feats)})


def _mask_ili(o):
    """the ILI *inventory* (status/definition of existing ILIs) is shared state, not lexicon content"""
    import copy
    o = copy.deepcopy(o)
    for d in o['synsets'].values():
        if isinstance(d, dict) and d.get('ili') and d['ili'][0] is not None:
            d['ili'] = [d['ili'][0]]
            d.pop('ili_inv_meta', None)
    import json
    o['ilis'] = sorted(([i[0]] if i and i[0] is not None else i for i in o['ilis']), key=lambda x: json.dumps(x, default=str))
    return o


def _reimport_model(res, v):
    """document model of what a re-import of the v export must contain: the v-projection, with the
    sense-frame links of the source in a neutral encoding (they are observable in every version) and without
    ILIDefinitions of non-proposed ILIs (ILI inventory, not lexicon content)"""
    proj = lmfnf.project(res, v)
    for lx, src in zip(proj['lexicons'], res['lexicons']):
        links = frame_links(src)
        lx.pop('frames', None)
        for e in lx.get('entries', []):
            e.pop('frames', None)
            for s_ in e.get('senses', []):
                s_.pop('subcat', None)
        byframe = {}
        for sid, fr in sorted(links):
            byframe.setdefault(fr, []).append(sid)
        if byframe:
            lx['frames'] = [{'subcategorizationFrame': fr, 'senses': sids} for fr, sids in byframe.items()]
        for ss in lx.get('synsets', []):
            if ss.get('ili') != 'in':
                ss.pop('ili_definition', None)
    return proj


def _all_ids(lx):
    yield lx['id']
    for e in lx.get('entries', []):
        yield e['id']
        for s in e.get('senses', []):
            yield s['id']
    for ss in lx.get('synsets', []):
        yield ss['id']
