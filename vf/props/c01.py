"""C01 - the query API reports exactly the content of every added lexicon.

Workload: generated WN-LMF documents (all versions, extensions, hostile strings, every optional
feature toggled) written by the harness' own writer, added with the real ``wn.add``.
Oracle: the reference model's observation computed from the document model.
Monitors: observation walk over the public API, SQL trace (transaction bracket), authorizer
(write-set = which tables a case reached), structural audit of the SQLite file.
"""

import os
import random

from vf import env, wnio, dbdump
from vf.gen import doc
from vf.model.db import ModelDB
from vf.monitors.sql import SqlMonitor
from vf.obscheck import compare

RULE = ('one case = one generated resource (seeded; LMF version, 1-3 lexicons incl. extensions, optional '
        'features toggled independently) added through wn.add and read back through the whole public query API '
        'in every applicable scope; distinct = hash of the canonical document model; non-trivial = the add wrote '
        'rows into at least 10 different tables')
ASSUMPTIONS = ['identifiers are unique inside one lexicon / extension family (documented precondition)',
               'new forms an extension puts on an external entry carry no tags/pronunciations (outside the documented patterns)',
               'sqlite3 and pyexpat are trusted']
FLOORS = {'*': {'obs.compared': 20, 'auth.write': 200}}
N = {'quick': 1200, 'thorough': 12000}
BATCHES = [1, 2, 3, 7, None]


def plan(tier, seed):
    out = []
    for i in range(N[tier]):
        out.append({'seed': seed * 1000003 + i, 'lmfver': doc.LMF_VERSIONS[i % 4],
                    'batch': BATCHES[i % len(BATCHES)], 'idstyle': 'short' if i % 3 else 'prefixed',
                    'frames': 'senses' if i % 11 == 5 else 'auto'})
    # a synset with more declared members than the rank that unlisted members get (127): the declared order must hold
    out.append({'seed': seed * 1000003 + 999961, 'lmfver': '1.1', 'batch': None, 'idstyle': 'prefixed', 'frames': 'auto', 'many_members': 150})
    # databases whose file was created by another process that only read from it (and never committed anything itself)
    for i in range(2 if tier == 'quick' else 20):
        out.append({'seed': seed * 1000003 + 999900 + i, 'lmfver': doc.LMF_VERSIONS[i % 4], 'batch': None, 'idstyle': 'short', 'frames': 'auto',
                    'created_by_reader': True})
    if tier == 'thorough':
        out.append({'seed': seed * 1000003 + 999983, 'lmfver': '1.3', 'batch': None, 'idstyle': 'prefixed',
                    'frames': 'auto', 'big': 2005})
        out.append({'seed': seed * 1000003 + 999979, 'lmfver': '1.0', 'batch': None, 'idstyle': 'prefixed',
                    'frames': 'auto', 'big': 2005})
    return out


def build(case):
    r = random.Random(case['seed'])
    prof = doc.Profile(idstyle=case['idstyle'], frames=case['frames'])
    if case.get('many_members'):
        n = case['many_members']
        order = list(range(n))
        r.shuffle(order)
        entries = [{'id': f'mm-e{i}', 'meta': None, 'lemma': {'writtenForm': f'member{i}', 'partOfSpeech': 'n'},
                    'senses': [{'id': f'mm-s{i}', 'synset': 'mm-ss1' if i % 10 else 'mm-ss2', 'meta': None}]} for i in range(n)]
        synsets = [{'id': 'mm-ss1', 'ili': '', 'partOfSpeech': 'n', 'meta': None, 'members': [f'mm-s{i}' for i in order if i % 10]},
                   {'id': 'mm-ss2', 'ili': '', 'partOfSpeech': 'n', 'meta': None, 'members': [f'mm-s{i}' for i in reversed(order) if not i % 10]}]
        lex = {'id': 'mm', 'label': 'many members', 'language': 'en', 'email': 'e', 'license': 'l', 'version': '1', 'meta': None,
               'entries': entries, 'synsets': synsets}
        return {'lmf_version': case['lmfver'], 'lexicons': [lex]}
    if case.get('big'):
        prof = doc.Profile(idstyle='prefixed', max_entries=case['big'], max_synsets=case['big'], hostile=0.1)
        lex = None
        while lex is None or len(lex.get('entries', [])) < 1001:
            lex = doc.gen_lexicon(r, case['lmfver'], 'big', '1', prof)
        return {'lmf_version': case['lmfver'], 'lexicons': [lex]}
    return doc.gen_resource(r, lmfver=case['lmfver'], profile=prof)


def run_case(case, rec):
    import wn
    res = build(case)
    h = doc.canonical_hash(res)
    feats = doc.features(res)
    mon = SqlMonitor(rec)
    mon.install()
    old_batch = getattr(wn._add, 'BATCH_SIZE', None)
    try:
        with env.FreshDB(init=not case.get('created_by_reader')) as fdb:
            if case.get('created_by_reader'):
                import subprocess
                import sys
                code = ('import wn; wn.config.data_directory = %r; print(len(wn.lexicons()), len(wn.words()))' % str(fdb.dir))
                p_ = subprocess.run([sys.executable, '-c', code], capture_output=True, text=True, timeout=300,
                                    env=dict(os.environ, PYTHONPATH=str(env.REPO)))
                rec.event('created-by-reader')
                if p_.returncode != 0 or p_.stdout.split() != ['0', '0']:
                    rec.violation('reader-process', f'a process that only reads from a new data directory: rc {p_.returncode}, output {p_.stdout!r} {p_.stderr[-300:]}')
            if case.get('batch') and old_batch is not None:
                wn._add.BATCH_SIZE = case['batch']
                rec.event('batch.size.%d' % case['batch'])
            path = wnio.write_resource(res, fdb.dir, random.Random(case['seed'] + 1))
            m = ModelDB()
            ok = True
            for round_ in range(len(res['lexicons'])):
                before = set(m.lex)
                with mon.call('add'):
                    wnio.add(path)
                rec.call('wn.add')
                for key, msg in mon.check_atomic_success() + mon.drain_spec_violations():
                    rec.violation('sql:' + key, msg)
                real = sorted(lx.specifier() for lx in wn.lexicons())
                m.add_like_real(res, real)
                if real != sorted(m.lex):
                    rec.violation('installed-set', f'after add #{round_ + 1}: installed {real}, model {sorted(m.lex)}')
                    ok = False
                    break
                for key, msg in dbdump.audit(fdb.path):
                    rec.violation('audit:' + key, msg)
                if set(m.lex) == before and round_ > 0:
                    break
                # scopes in which nothing outside the selection can interfere (C04 is checked elsewhere)
                for sp in m.lex:
                    chain = [sp] + m.bases_of(sp)
                    if all(x in chain for c in chain for x in m.extensions_of(c)):
                        ok &= compare(rec, m, chain if len(chain) > 1 else [sp], label='C01')
                        if len(chain) > 1:
                            rec.event('scope.base+extension')
                        else:
                            rec.event('scope.single')
            if ok and _ids_globally_unique(m):
                rec.event('scope.default')
                compare(rec, m, None, default=True, label='C01 default mode')
            rec.state(sorted(m.lex))
    finally:
        if old_batch is not None:
            wn._add.BATCH_SIZE = old_batch
        mon.uninstall()
    for f, n in feats.items():
        rec.event('feature.' + f, n)
    rec.add_extra('tables_written', sorted(mon.tables_written))
    rec.done(h, nontrivial=len(mon.tables_written) >= 10,
             sample={'lmf_version': res['lmf_version'],
                     'lexicons': [f"{lx['id']}:{lx['version']}" + (' extends ' + lx['extends']['id'] if lx.get('extends') else '')
                                  for lx in res['lexicons']],
                     'features': dict(feats), 'tables_written': sorted(mon.tables_written)})


def _ids_globally_unique(m):
    """default mode navigates by identifier across every installed lexicon; C10 owns what happens when
    identifiers collide between unrelated lexicons, so C01 looks at default mode only without collisions"""
    t = m.tables()
    for table in (t.entries, t.senses, t.synsets):
        ids = [key.split('::', 1)[1] for key in table]
        if len(ids) != len(set(ids)):
            return False
    return True
