"""C11 - relation queries return exactly the declared relations; closures terminate.

Families (base lexicon + extension) whose sense-sense, sense-synset and synset-synset relation multigraphs are dense and
arbitrary: self-loops, cycles, parallel relations of different type or dc:type, exact duplicates, made-up relation types,
metadata.  ILIs are absent or disjoint so that ILI expansion (C12) adds nothing.  For every entity, scope
(base only, base+extension, extension only, default mode) and several relation-type argument sets, the real
relations()/get_related()/get_related_synsets()/relation_map()/closure()/relation_paths()/hypernyms().. are compared with
the model computed from the documents.  A step monitor counts get_related() expansions: closure over n reachable entities
must finish within n+1 expansions, relation_paths within (number of simple path prefixes)+1.
"""

import random

from vf import env, wnio
from vf.diff import diff, fmt, SetOf, Bag
from vf.gen import doc
from vf.model.db import ModelDB, View
from vf.obscheck import compare

ID = 'C11'
RULE = ('one case = one family (base + extension, 3-6 entries/synsets each, dense relation multigraph) observed in 4 scopes; for every '
        'entity 6 type-argument sets; distinct = document hash; non-trivial = the family has a relation cycle or self-loop and a '
        'pair of relations differing only in dc:type or metadata')
ASSUMPTIONS = ['relation_paths(end=e) (undocumented parameter) yields the simple paths from the entity to e, as its source reads',
               'identifiers unique inside the family; ILIs absent or disjoint between base and extension (ILI expansion is C12)',
               "closure() identifies entities by id string, which is exact inside one family"]
FLOORS = {'*': {'relquery.compared': 3000, 'closure.compared': 500, 'paths.compared': 500}}
N = {'quick': 40, 'thorough': 1500}
TYPES_SS = ['hypernym', 'hyponym', 'similar', 'also', 'made_up_rel', 'instance_hypernym', 'mero_part', 'holo_part', 'meronym', 'holonym',
            'instance_hyponym', 'mero_substance', 'holo_member']
TYPES_S = ['antonym', 'also', 'derivation', 'similar', 'made_up_rel']
TYPES_SSS = ['other', 'domain_topic', 'made_up_rel']
QUIRKS = {'nav-by-id': None, 'tags-unowned': None, 'ext-forms': None}


def plan(tier, seed):
    return [{'seed': seed * 1000003 + i} for i in range(N[tier])] + [{'kind': 'pytest-under-contracts', 'seed': 0}]


class StepBudget(Exception):
    pass


class Steps:
    """Counts get_related() expansions (the unit of work of closure/relation_paths); a call that needs more than
    ``cap`` expansions on these tiny graphs is cut off (termination decided as bounded progress)."""

    def __init__(self):
        import wn
        self.n = 0
        self.cap = 100000
        self.armed = False
        self.orig = {}
        for cls in (wn.Synset, wn.Sense):
            self.orig[cls] = cls.get_related
            cls.get_related = self._wrap(cls.get_related)

    def _wrap(self, f):
        mon = self

        def get_related(self_, *a):
            mon.n += 1
            if mon.armed and mon.n > mon.cap:
                mon.armed = False
                raise StepBudget(f'more than {mon.cap} get_related() expansions in one call')
            return f(self_, *a)
        return get_related

    def restore(self):
        for cls, f in self.orig.items():
            cls.get_related = f


def model_edges(view, key, kind, types):
    """targets of the in-scope declared relations of entity key restricted to types ('*' or empty = all)"""
    if kind == 'synset':
        rels = view.own_synset_relations(key)
    else:
        rels = view.sense_relations(key, 'sense')
    if types and '*' not in types:
        rels = [r for r in rels if r['type'] in types]
    return rels


def reachable(view, key, kind, types):
    seen, order = set(), []
    queue = [r['tgt'] for r in model_edges(view, key, kind, types)]
    while queue:
        x = queue.pop(0)
        if x in seen:
            continue
        seen.add(x)
        order.append(x)
        queue.extend(r['tgt'] for r in model_edges(view, x, kind, types))
    return order


def simple_paths(view, key, kind, types, cap=3000):
    """all maximal simple paths leaving key (key itself never re-entered); (paths, number of prefixes)"""
    out = []
    prefixes = 0
    stack = [([t], {key, t}) for t in dict.fromkeys(r['tgt'] for r in model_edges(view, key, kind, types)) if t != key]
    while stack:
        path, seen = stack.pop()
        prefixes += 1
        if prefixes > cap:
            return None, prefixes
        nxt = [t for t in dict.fromkeys(r['tgt'] for r in model_edges(view, path[-1], kind, types)) if t not in seen]
        if not nxt:
            out.append(path)
        for t in nxt:
            stack.append((path + [t], seen | {t}))
    return out, prefixes


def run_case(case, rec):
    if case.get('kind') == 'pytest-under-contracts':
        from vf import contracts_case
        return contracts_case.run(rec, ID)
    import wn
    r = random.Random(case['seed'])
    pa = doc.Profile(max_entries=r.choice([3, 4, 6]), max_synsets=r.choice([3, 4, 6]), max_rel=4, dup_rel=0.35, p_rel=0.9, p_meta=0.5,
                     ili='unique', ili_pool=['i1', 'i2', 'i3', 'i4'], rel_synset=TYPES_SS, rel_sense=TYPES_S,
                     rel_sense_synset=TYPES_SSS, idstyle='prefixed', hostile=0.1)
    px = doc.Profile(**{**pa, 'ili_pool': ['i5', 'i6', 'i7']})
    base = doc.gen_lexicon(r, '1.1', 'rb', '1', pa)
    ext = doc.gen_lexicon(r, '1.1', 'rx', '1', px, base=base)
    other = doc.gen_lexicon(r, '1.1', 'ro', '1', doc.Profile(**{**pa, 'ili': 'none'}), idprefix='rb-')   # same ids as base
    work = env.mkdtemp('c11')
    steps = Steps()
    nontrivial = _has_cycle_and_parallel(base, ext)
    try:
        with env.FreshDB():
            m = ModelDB()
            for i, lx in enumerate((base, other, ext)):
                res = {'lmf_version': '1.1', 'lexicons': [lx]}
                wnio.add(wnio.write_resource(res, work, random.Random(i), name=f'l{i}.xml'))
                m.add_resource(res)
                if i == 0 and case['seed'] % 2 == 0:
                    # long-lived process: relation queries with type filters are made *before* the other lexicons (which use
                    # relation types the base does not) are added over the same connection; nothing learnt here may stick
                    rec.event('scope.base-early')
                    check_entities(rec, wnio.wordnet(['rb:1'], []), View(m, ['rb:1'], False, []), steps, r, 'base-early')
            scopes = [('base', ['rb:1'], False), ('base+ext', ['rb:1', 'rx:1'], False), ('ext', ['rx:1'], False),
                      ('default', None, True)]
            for label, sel, default in scopes:
                rec.event('scope.' + label)
                compare(rec, m, sel, default=default, expand=None if default else [], label=f'C11 {label}', quirks=QUIRKS)
                if default:
                    # in default mode ILI expansion is always on; the family's ILIs are disjoint from each other, and the
                    # outsider has none, so expansion still adds nothing
                    sel_specs = sorted(m.lex, key=lambda s: m.lex[s].order)
                    view = View(m, sel_specs, True, sel_specs)
                    w = wn.Wordnet()
                else:
                    view = View(m, sel, False, [])
                    w = wnio.wordnet(sel, [])
                check_entities(rec, w, view, steps, r, label)
            rec.state(case['seed'])
    finally:
        steps.restore()
        env.rmtree(work)
    rec.done(doc.canonical_hash([base, ext]), nontrivial=nontrivial,
             sample={'base_synsets': len(base.get('synsets', [])), 'ext_synsets': len(ext.get('synsets', [])),
                     'relations_declared': sum(len(x.get('relations', [])) for lx in (base, ext) for x in lx.get('synsets', []))})


def _has_cycle_and_parallel(*lexs):
    edges = set()
    par = False
    for lx in lexs:
        for ss in lx.get('synsets', []):
            seen = {}
            for rel in ss.get('relations', []):
                edges.add((ss['id'], rel['target']))
                k_ = (rel['relType'], rel['target'])
                if k_ in seen:
                    par = True
                seen[k_] = 1
    loop = any(a == b for a, b in edges) or any((b, a) in edges for a, b in edges)
    return loop and par


def check_entities(rec, w, view, steps, r, label):
    import wn
    sel = set(view.sel)
    runaways = 0
    for kind, items, types_pool in (('synset', w.synsets(), TYPES_SS), ('sense', w.senses(), TYPES_S)):
        table = view.t.synsets if kind == 'synset' else view.t.senses
        for x in items:
            key = f'{x.lexicon().specifier()}::{x.id}'
            if key not in table:
                rec.violation('unknown-entity', f'{label}: {key} returned but not in the model')
                continue
            argsets = [(), ('*',), (r.choice(types_pool),), tuple(r.sample(types_pool, 2)), ('no_such_type',),
                       tuple(r.sample(types_pool, 3)) + ('no_such_type',)]
            # Relation objects are values: equal (and hashing alike) across calls, unequal to anything that is not a relation
            rm1, rm2 = list(x.relation_map()), list(x.relation_map())
            rec.event('relation.values.checked', len(rm1))
            for a, b in zip(rm1, rm2):
                try:
                    ok = a == b and hash(a) == hash(b) and (a == 'not a relation') is False and (a != None) is True  # noqa: E711
                    ok = ok and all((a == c) == (a is c or (a.name, a.source_id, a.target_id, a.subtype, a.lexicon().specifier()) ==
                                                 (c.name, c.source_id, c.target_id, c.subtype, c.lexicon().specifier())) for c in rm1)
                except Exception as exc:
                    ok = False
                    a = f'{a!r} ({type(exc).__name__}: {exc})'
                if not ok:
                    rec.violation('relation-value-semantics', f'{label}: {key}.relation_map(): relation {a} does not behave as a value under ==/hash')
                    break
            for T in argsets:
                edges = model_edges(view, key, kind, T)
                names = {}
                for e in edges:
                    names.setdefault(e['type'], []).append(e['tgt'])
                want_rel = {n: SetOf(list(dict.fromkeys(v))) for n, v in names.items()}
                got_rel = {n: [_k(t) for t in v] for n, v in x.relations(*T).items()}
                rec.event('relquery.compared')
                rec.call(f'{kind}.relations')
                d = diff(want_rel, got_rel)
                if d:
                    rec.violation(f'relations:{kind}', f'{label}: {key}.relations{T}: ' + fmt(d))
                got = [_k(t) for t in x.get_related(*T)]
                rec.call(f'{kind}.get_related')
                d = diff(SetOf(list(dict.fromkeys(e['tgt'] for e in edges))), got)
                if d:
                    rec.violation(f'get_related:{kind}', f'{label}: {key}.get_related{T}: ' + fmt(d))
                if kind == 'sense':
                    ssrels = view.sense_relations(key, 'synset')
                    if T and '*' not in T:
                        ssrels = [e for e in ssrels if e['type'] in T]
                    got = [_k(t) for t in x.get_related_synsets(*T)]
                    rec.call('sense.get_related_synsets')
                    d = diff(SetOf(list(dict.fromkeys(e['tgt'] for e in ssrels))), got)
                    if d:
                        key_ = 'get_related_synsets-noargs' if not T else 'get_related_synsets'
                        rec.violation(key_, f'{label}: {key}.get_related_synsets{T}: ' + fmt(d))
                # closure
                want_reach = reachable(view, key, kind, T)
                budget = (len(want_reach) + 1) * 3 + 5
                steps.n = 0
                steps.cap = 200 * (len(want_reach) + 1) + 500
                steps.armed = True
                got_c = []
                reach_obj = {}
                try:
                    for y in x.closure(*T):
                        got_c.append(_k(y))
                        reach_obj[got_c[-1]] = y
                        if len(got_c) > len(want_reach) + 50 or steps.n > budget * 20:
                            rec.violation('closure-runaway', f'{label}: {key}.closure{T} yielded {len(got_c)} items / {steps.n} expansions '
                                          f'for {len(want_reach)} reachable entities')
                            break
                except StepBudget as exc:
                    rec.violation('closure-runaway', f'{label}: {key}.closure{T}: {exc}')
                    steps.armed = False
                    runaways += 1
                    if runaways >= 3:
                        return
                    continue
                steps.armed = False
                rec.event('closure.compared')
                rec.event('steps.closure', steps.n)
                d = diff(SetOf(want_reach), got_c)
                if d:
                    rec.violation(f'closure:{kind}', f'{label}: {key}.closure{T}: ' + fmt(d))
                elif steps.n > 50 * (len(want_reach) + 1):
                    # bounded progress, with a wide margin: how often an implementation expands a node is its own business,
                    # running away is not
                    rec.violation('closure-step-budget', f'{label}: {key}.closure{T}: {steps.n} expansions for {len(want_reach)} reachable entities')
                # relation_paths
                want_paths, prefixes = simple_paths(view, key, kind, T)
                if want_paths is None:
                    rec.event('paths.skipped-too-many')
                    continue
                steps.n = 0
                steps.cap = 200 * (prefixes + 1) + 500
                steps.armed = True
                got_p = []
                bad = False
                try:
                    for path in x.relation_paths(*T):
                        got_p.append([_k(y) for y in path])
                        if len(got_p) > len(want_paths) + 20:
                            rec.violation('paths-runaway', f'{label}: {key}.relation_paths{T} yields more than {len(want_paths)} paths')
                            bad = True
                            break
                except StepBudget as exc:
                    rec.violation('paths-runaway', f'{label}: {key}.relation_paths{T}: {exc}')
                    bad = True
                    runaways += 1
                    if runaways >= 3:
                        steps.armed = False
                        return
                steps.armed = False
                rec.event('paths.compared')
                rec.event('steps.paths', steps.n)
                if bad:
                    continue
                for path in got_p:
                    if len(set(path)) != len(path) or key in path:
                        rec.violation('path-not-simple', f'{label}: {key}.relation_paths{T} yields a non-simple path {path}')
                        break
                d = diff(Bag(want_paths), got_p)
                if d:
                    rec.violation(f'relation_paths:{kind}', f'{label}: {key}.relation_paths{T}: ' + fmt(d))
                elif steps.n > 50 * (prefixes + 1):
                    rec.violation('paths-step-budget', f'{label}: {key}.relation_paths{T}: {steps.n} expansions for {prefixes} path prefixes')
                elif want_paths and reach_obj:
                    # relation_paths(end=e): exactly the simple paths from the entity to e (each is a prefix of a maximal one)
                    ekey = r.choice(sorted(reach_obj))
                    want_e = [list(q) for q in dict.fromkeys(tuple(p_[:p_.index(ekey) + 1]) for p_ in want_paths if ekey in p_)]
                    steps.n = 0
                    steps.armed = True
                    try:
                        got_e = [[_k(y) for y in path] for path in x.relation_paths(*T, end=reach_obj[ekey])]
                    except StepBudget as exc:
                        rec.violation('paths-runaway', f'{label}: {key}.relation_paths{T} end={ekey}: {exc}')
                        got_e = None
                    steps.armed = False
                    rec.event('paths.end.compared')
                    if got_e is not None:
                        d = diff(Bag(want_e), got_e)
                        if d:
                            rec.violation(f'relation_paths-end:{kind}', f'{label}: {key}.relation_paths{T} end={ekey}: ' + fmt(d))
            if kind == 'synset':
                for meth, T in (('hypernyms', ('hypernym', 'instance_hypernym')), ('hyponyms', ('hyponym', 'instance_hyponym')),
                                ('holonyms', ('holonym', 'holo_location', 'holo_member', 'holo_part', 'holo_portion', 'holo_substance')),
                                ('meronyms', ('meronym', 'mero_location', 'mero_member', 'mero_part', 'mero_portion', 'mero_substance'))):
                    got = [_k(t) for t in getattr(x, meth)()]
                    rec.call('synset.' + meth)
                    want = list(dict.fromkeys(e['tgt'] for e in model_edges(view, key, kind, T)))
                    d = diff(SetOf(want), got)
                    if d:
                        rec.violation('shortcut:' + meth, f'{label}: {key}.{meth}(): ' + fmt(d))


def _k(obj):
    return f'{obj.lexicon().specifier()}::{obj.id}'
