"""C04 - queries stay inside the selected lexicons and ignore unrelated ones.

(a) membership invariant, evaluated on every entity object the observation walk touches: an entity obtained
    from a Wordnet restricted to S belongs to a lexicon of S (placeholder synsets excepted);
(b) non-interference, differential between real executions: the observation of Wordnet(S, expand=E) must be
    identical in db1 (S, its expand set and the bases they need), db2 (= db1 + every other lexicon of the universe:
    other versions, unselected extensions of members of S, unrelated lexicons with colliding ids/forms/ILIs) and
    db3 (= db2 with the outsiders removed again).  The reference model classifies a difference.
"""

import copy
import random

from vf import env, wnio, dbdump
from vf.diff import diff, fmt
from vf.gen import doc, universe
from vf.model.db import ModelDB, View
from vf.obscheck import canon_real, norm_path, strip_ghost_tags, QUIRK_KEYS
from vf.observe import observe

ID = 'C04'
RULE = ('one case = one universe of 9 related lexicons x one selection S (1-3 lexicons) x one expand setting, observed in three '
        'databases (insiders only / plus outsiders / outsiders removed again); distinct = universe seed + S + expand; non-trivial = '
        'at least one outsider was added that collides with an insider in identifiers or is an unselected extension of a member of S')
ASSUMPTIONS = ['outsiders never include a declared-but-missing dependency of S (that would legitimately change the default expand set)',
               'translate() results are scoped by the target argument, not by S (checked in C10)']
FLOORS = {'*': {'membership.checked': 2000, 'triple.compared': 40, 'search.checked': 2000}}
N = {'quick': 90, 'thorough': 2500}
SELECTIONS = [
    (['a1'], None), (['a1'], ''), (['a1', 'xa'], None), (['a1', 'b'], None), (['c'], None), (['c'], ''), (['c'], ['a1']),
    (['xa'], None), (['a2'], None), (['a1', 'a2'], None), (['b'], ['a1']), (['a1', 'xa', 'xxa'], None), (['d'], None),
    (['a1', 'ya'], ''), (['b', 'c'], None),
]


def plan(tier, seed):
    return [{'seed': seed * 1000003 + i // len(SELECTIONS), 'sel': i % len(SELECTIONS)} for i in range(N[tier])] + [{'kind': 'pytest-under-contracts', 'seed': 0}]


def closure_bases(names, u):
    """names plus the bases their extensions need, in an installable order"""
    need = []

    def add(n):
        lx = u[n]
        if lx.get('extends'):
            b = next(k_ for k_, d in u.items() if universe.spec(d) == f"{lx['extends']['id']}:{lx['extends']['version']}")
            add(b)
        if n not in need:
            need.append(n)
    for n in names:
        add(n)
    return need


def run_case(case, rec):
    if case.get('kind') == 'pytest-under-contracts':
        from vf import contracts_case
        return contracts_case.run(rec, ID)
    import wn
    r = random.Random(case['seed'])
    u = universe.make(r)
    sel_names, expand = SELECTIONS[case['sel']]
    S = [universe.spec(u[n]) for n in sel_names]
    if expand is None:
        # default expand = installed declared dependencies; they are insiders
        deps = []
        for n in sel_names:
            for q in u[n].get('requires') or []:
                s2 = f"{q['id']}:{q['version']}"
                nm = next((k_ for k_, d in u.items() if universe.spec(d) == s2), None)
                if nm:
                    deps.append(nm)
        exp_names, exp_arg = deps, None
    elif expand == '':
        exp_names, exp_arg = [], []
    else:
        exp_names, exp_arg = list(expand), [universe.spec(u[n]) for n in expand]
    insiders = closure_bases(list(sel_names) + exp_names, u)
    outsiders = [n for n in universe.ORDER if n in u and n not in insiders]
    r.shuffle(outsiders)
    outsiders = closure_order(outsiders, u)
    work = env.mkdtemp('c04')
    members = {'n': 0}

    def visit(obj, key, via, placeholder):
        members['n'] += 1
        rec.event('membership.checked')
        rec.call(via)
        if placeholder:
            return
        lexspec = key.split('::', 1)[0]
        if lexspec not in S:
            rec.violation('outside-selection', f'{via} returned {key}, which is not in the selection {S}', {'via': via})

    try:
        with env.FreshDB() as fdb:
            m = ModelDB()
            universe.install(insiders, u, work, m)
            w = wnio.wordnet(S, exp_arg)
            raw1 = observe(w, rec, visit)
            forms = _all_forms(u)
            q1 = _searches(w, forms, visit, rec)
            model_exp = _model_expand(m, S, exp_arg)
            _vs_model(rec, m, S, model_exp, raw1, 'db1 (insiders only)')
            o1 = _mask(canon_real(copy.deepcopy(raw1)))
            # ---- outsiders come
            universe.install(outsiders, u, work, m, rng_seed=7)
            w = wnio.wordnet(S, exp_arg)
            raw2 = observe(w, rec, visit)
            o2 = _mask(canon_real(copy.deepcopy(raw2)))
            rec.event('triple.compared')
            collide = _collides(u, sel_names, outsiders)
            q2 = _searches(w, forms, visit, rec)
            # ILIs that only outsiders carry are not obtainable through the restricted Wordnet
            mine = {i[0] for i in raw2['ilis'] if i and i[0]}
            for ss in (x for n in outsiders for x in u[n].get('synsets', [])):
                iid = ss.get('ili')
                if iid and iid != 'in' and iid not in mine:
                    rec.event('foreign-ili.looked-up')
                    try:
                        got = w.ili(iid)
                    except wn.Error:
                        continue
                    if got is not None:
                        rec.violation('outside-selection', f'S={S}: ili({iid!r}) returns {got!r} although no synset of the selection carries that ILI')
                        break
            dq = diff(q1, q2)
            if dq:
                rec.violation('search-interference', f'S={S} expand={exp_arg}: looking up a form gives a different result after outsiders '
                              f'{[universe.spec(u[n]) for n in outsiders]} were added: ' + fmt(dq))
            d = diff(o1, o2)
            if d:
                _classify(rec, m, S, model_exp, raw2, d, 'adding outsiders ' + str([universe.spec(u[n]) for n in outsiders]))
            # ---- unrestricted default mode on the full database: navigation and relation traversal from an entity stay
            # within that entity's own lexicon and its extension family (the model's default-mode view)
            if case['sel'] % 5 == 0:
                from vf.obscheck import compare
                rec.event('default-mode.compared')
                compare(rec, m, None, default=True, label='C04 default mode',
                        quirks={'tags-unowned': 'form-tags-unowned', 'ext-forms': 'unselected-extension-forms', 'nav-by-id': None})
            # ---- outsiders go (extensions before their bases happens automatically)
            gone = list(outsiders)
            r.shuffle(gone)
            for n in gone:
                sp = universe.spec(u[n])
                if sp in m.lex:
                    wn.remove(sp, progress_handler=None)
                    m.remove(sp)
            w = wnio.wordnet(S, exp_arg)
            o3 = _mask(canon_real(observe(w, rec, visit)))
            dq = diff(q1, _searches(w, forms, visit, rec))
            if dq:
                rec.violation('search-interference-after-removal', f'S={S} expand={exp_arg}: looking up a form gives a different result '
                              'after outsiders were added and removed again: ' + fmt(dq))
            d = diff(o1, o3)
            if d:
                stripped = strip_ghost_tags(o3, m)
                if stripped and diff(o1, o3) is None:
                    rec.violation('form-tags-unowned', 'tags/pronunciations an unselected extension put on base forms are still '
                                  f'reported after the extension was removed again: {fmt(d, 300)}')
                else:
                    rec.violation('interference-after-removal:' + norm_path(d[0]),
                                  f'S={S} expand={exp_arg}: observation differs after outsiders were added and removed again: ' + fmt(d))
            for key, msg in dbdump.audit(fdb.path):
                rec.violation('audit:' + key, msg)
            rec.state([S, exp_arg, sorted(m.lex)])
        # ---- the outsiders were there first: a database in which outsiders are installed before and between the
        # insiders (the insiders keep their relative order), then observed, then stripped of the outsiders again
        merged = list(insiders)
        for n in outsiders:
            merged.insert(r.randrange(0, len(merged) + 1) if r.random() < 0.5 else 0, n)
        merged = closure_order(merged, u)
        with env.FreshDB():
            m4 = ModelDB()
            universe.install(merged, u, work, m4, rng_seed=11)
            w = wnio.wordnet(S, exp_arg)
            raw4 = observe(w, rec, visit)
            q4 = _searches(w, forms, visit, rec)
            rec.event('outsiders-first.compared')
            # against the model of this installation order (the shared ILI inventory is the one thing outsiders may
            # legitimately shape; the model knows who introduced an ILI first), with the same classification as above
            _vs_model(rec, m4, S, _model_expand(m4, S, exp_arg), raw4, 'outsiders installed before/between the insiders, order '
                      + str([universe.spec(u[n]) for n in merged]))
            dq = diff(q1, q4)
            if dq:
                rec.violation('search-interference', f'S={S} expand={exp_arg}: looking up a form gives a different result when the '
                              f'outsiders were installed first (order {[universe.spec(u[n]) for n in merged]}): ' + fmt(dq))
    finally:
        env.rmtree(work)
    rec.done([case['seed'], S, exp_arg], nontrivial=collide,
             sample={'selection': S, 'expand': exp_arg, 'insiders': insiders, 'outsiders': outsiders,
                     'entities_checked': members['n']})


def _all_forms(u):
    """every written form of every lexicon of the universe (also those only outsiders have), plus case variants"""
    out = []

    def walk(x):
        if isinstance(x, dict):
            if isinstance(x.get('writtenForm'), str):
                out.append(x['writtenForm'])
            for v in x.values():
                walk(v)
        elif isinstance(x, list):
            for v in x:
                walk(v)
    for lx in u.values():
        walk(lx.get('entries', []))
    out = list(dict.fromkeys(out))
    return out + [f.upper() for f in out if f.upper() not in out][:20]


def _searches(w, forms, visit, rec):
    """form look-ups through the restricted Wordnet: results keyed by entity, every result checked for membership"""
    res = {}
    for f in forms:
        for name in ('words', 'senses', 'synsets'):
            got = getattr(w, name)(f)
            keys = []
            for x in got:
                k = f'{x.lexicon().specifier()}::{x.id}'
                visit(x, k, f'Wordnet.{name}(form)', False)
                keys.append(k)
            rec.event('search.checked')
            if keys:
                res[f'{name}({f!r})'] = keys
    return res


def _mask(o):
    """which extensions/dependencies of a lexicon are installed is dependency bookkeeping (C05), not a query result"""
    for d in o['lexicons'].values():
        for f in ('extensions', 'all_extensions', 'requires'):
            d.pop(f, None)
    return o


def closure_order(names, u):
    out = []
    for n in names:
        for x in closure_bases([n], u):
            if x in names and x not in out:
                out.append(x)
    return out


def _model_expand(m, S, exp_arg):
    if exp_arg is None:
        return wnio.default_expand(m, S)
    return list(exp_arg)


def _collides(u, sel_names, outsiders):
    for o in outsiders:
        lx = u[o]
        if lx.get('extends') and any(universe.spec(u[s]) == f"{lx['extends']['id']}:{lx['extends']['version']}" for s in sel_names):
            return True
        ids_o = {e['id'] for e in lx.get('entries', [])} | {s['id'] for s in lx.get('synsets', [])}
        for s in sel_names:
            ids_s = {e['id'] for e in u[s].get('entries', [])} | {x['id'] for x in u[s].get('synsets', [])}
            if ids_o & ids_s:
                return True
    return False


def _vs_model(rec, m, S, model_exp, obs, label):
    e = View(m, S, False, model_exp).observe()
    d = diff(e, obs)
    if d:
        _classify(rec, m, S, model_exp, obs, d, label)


def _classify(rec, m, S, model_exp, obs, d0, label):
    import itertools
    for n in range(0, len(QUIRK_KEYS) + 1):
        for combo in itertools.combinations(QUIRK_KEYS, n):
            e = View(m, S, False, model_exp, quirks=combo).observe()
            if diff(e, obs) is None:
                if not combo:
                    # the observation changed but still equals what the model allows (an order the statement leaves open)
                    rec.event('difference.within-model')
                    return
                for q in combo:
                    if q == 'nav-by-id':
                        # wrong entity, but one of S and already so without any outsider: C10's subject, not C04's
                        rec.event('c10-mechanism-seen.sense-nav-by-id')
                        continue
                    rec.violation(QUIRK_KEYS[q], f'S={S}: {label}: {fmt(d0, 300)}')
                return
    e_all = View(m, S, False, model_exp, quirks=list(QUIRK_KEYS)).observe()
    d_all = diff(e_all, obs)
    if d_all is not None:
        d0 = d_all       # the part of the difference that no known mechanism accounts for
    rec.violation('interference:' + norm_path(d0[0]), f'S={S} expand={model_exp}: {label} changed the observation: ' + fmt(d0))
