"""C20 - invalid WN-LMF is rejected as a whole; scans agree with full loads.

(a) valid generated documents in every surface form the writer can produce: is_lmf() true, load() succeeds,
    scan_lexicons() agrees with load() on (id, version, label, extends) in order, add() succeeds;
(b) the same for the library's own dump() output;
(c) every single-fault mutant (classes of vf.gen.xmlmut) is rejected by load() and by add(), the table dump of a
    non-empty database is unchanged and the SQL trace of the failed add contains no write;
(d) is_lmf(F) == "load(F) accepts the header" over header variants.
Audit hooks watch the files: nothing is opened for writing except the database, temporary files are gone.
"""

import random
import sys

from vf import env, wnio, dbdump, xmlw
from vf.gen import doc, xmlmut
from vf.monitors.sql import SqlMonitor

RULE = ('one case = one generated valid document: checked in 3 surface forms + dump() output for scan/load agreement, '
        'then mutated once per (fault class, element kind, position sample) - each mutant is one evaluation against load() '
        'and add() on a non-empty database; distinct = hash of the mutated text; non-trivial = the mutant differs from the '
        'original and belongs to a listed fault class')
ASSUMPTIONS = ['misplaced-but-known elements are not in the statement and are not generated',
               'an altered XML declaration (other version/encoding) counts as lacking the required declaration']
FLOORS = {'*': {'mutant.rejected.load': 300, 'mutant.rejected.add': 300, 'scan.compared': 30}}
N = {'quick': 160, 'thorough': 3000}
PER_KIND = {'quick': 1, 'thorough': 3}


def plan(tier, seed):
    return [{'seed': seed * 1000003 + i, 'lmfver': doc.LMF_VERSIONS[i % 4], 'per_kind': PER_KIND[tier]} for i in range(N[tier])]


def scan_of_load(R):
    out = []
    for lx in R['lexicons']:
        ext = lx.get('extends')
        out.append({'id': lx['id'], 'version': lx['version'], 'label': lx['label'],
                    'extends': {'id': ext['id'], 'version': ext['version']} if ext else None})
    return out


def check_scan(rec, path, what):
    from wn import lmf
    R = lmf.load(path, progress_handler=None)
    want = scan_of_load(R)
    rec.event('scan.compared')
    try:
        got = [dict(x) for x in lmf.scan_lexicons(path)]
    except Exception as exc:
        rec.violation('scan-surface-form', f'scan_lexicons raised {type(exc).__name__}: {exc} on a document load() accepts ({what})')
        return R
    if got != want:
        rec.violation('scan-surface-form', f'scan_lexicons != load ({what}): scan {got} load {want}')
    return R


def run_case(case, rec):
    import wn
    from wn import lmf
    r = random.Random(case['seed'])
    v = case['lmfver']
    res = doc.gen_resource(r, lmfver=v, profile=doc.Profile(max_entries=3, max_synsets=3))
    for lx in res['lexicons']:
        if r.random() < 0.2:
            lx['label'] = ''          # required but may be empty: load() returns '', and so must the scan
            rec.event('label.empty')
    work = env.mkdtemp('c20')
    mon = SqlMonitor(rec)
    mon.install()
    try:
        # ---------- (a) valid documents, several surface forms
        for surface, safe in (('plain', True), ('varied', True), ('varied', False)):
            p = work / f'valid-{surface}-{safe}.xml'
            p.write_bytes(xmlw.dumps(res, random.Random(case['seed'] + 7), surface=surface, scan_safe=safe))
            if not lmf.is_lmf(p):
                rec.violation('valid-rejected', f'is_lmf() false for a valid document ({surface})')
                continue
            R = check_scan(rec, p, f'writer surface={surface} scan_safe={safe}')
            with env.FreshDB():
                try:
                    for _ in range(len(res['lexicons'])):
                        wnio.add(p)
                    rec.event('valid.added')
                    have = sorted(lx.specifier() for lx in wn.lexicons())
                    want = sorted({f"{lx['id']}:{lx['version']}" for lx in res['lexicons']
                                   if not lx.get('extends') or any(
                                       b['id'] == lx['extends']['id'] and b['version'] == lx['extends']['version']
                                       for b in res['lexicons'])})
                    if have != want:
                        rec.violation('valid-not-added', f'add() of a valid document installed {have}, expected {want}')
                except Exception as exc:
                    key = 'scan-surface-form' if isinstance(exc, KeyError) and not safe else 'valid-rejected'
                    rec.violation(key, f'add() raised {type(exc).__name__}: {exc} on a valid document (surface={surface}, scan_safe={safe})')
        # ---------- (b) the library's own writer
        p = work / 'valid-plain-True.xml'
        R = lmf.load(p, progress_handler=None)
        out = work / 'dumped.xml'
        lmf.dump(R, out)
        if not lmf.is_lmf(out):
            rec.violation('dump-rejected', 'is_lmf() false for dump() output')
        else:
            check_scan(rec, out, 'dump() output')
            with env.FreshDB():
                try:
                    wnio.add(out)
                    rec.event('dump.added')
                except Exception as exc:
                    key = 'scan-surface-form' if isinstance(exc, KeyError) else 'dump-rejected'
                    rec.violation(key, f'add() raised {type(exc).__name__}: {exc} on dump() output')

        # ---------- (c) mutants
        text = p.read_bytes().decode('utf-8')
        with env.FreshDB() as fdb:
            seed_lex = doc.gen_lexicon(random.Random(1), '1.1', 'resident', '1', doc.Profile(hostile=0))
            rp = wnio.write_resource({'lmf_version': '1.1', 'lexicons': [seed_lex]}, work, name='resident.xml', surface='plain')
            wnio.add(rp)
            before = dbdump.dump(fdb.path)
            for cls, desc, mutated in xmlmut.mutations(text, v, r, case['per_kind']):
                if mutated == text:
                    continue
                mp = work / 'mutant.xml'
                mp.write_bytes(mutated.encode('utf-8'))
                rec.event('mutant.' + cls)
                kind = desc.split(' removed')[0] if cls == 'required-attr' else desc
                rec.event('mutant.kind.' + cls + ':' + kind.split(' at byte')[0])
                # load
                try:
                    lmf.load(mp, progress_handler=None)
                    rec.violation(f'accepted-by-load:{cls}', f'load() accepted a document with: {desc}', {'class': cls, 'desc': desc})
                except Exception as exc:
                    rec.event('mutant.rejected.load')
                    rec.event('exc.load.' + type(exc).__name__)
                # add
                with mon.call('add'):
                    try:
                        wnio.add(mp)
                        key = f'accepted-by-add:{cls}'
                        if _all_skipped(mp, {'resident:1'}):
                            key = 'add-skips-validation-when-nothing-to-add'
                        rec.violation(key, f'add() accepted a document with: {desc}', {'class': cls, 'desc': desc})
                    except Exception as exc:
                        rec.event('mutant.rejected.add')
                        rec.event('exc.add.' + type(exc).__name__)
                writes = [s for k, s in mon.stmts if k == 'WRITE']
                if writes:
                    rec.event('mutant.add.wrote-then-failed')
                after = dbdump.dump(fdb.path)
                if after != before:
                    rec.violation('database-changed', f'database changed by a rejected document ({desc}): '
                                  + str(dbdump.first_difference(before, after)))
                    before = after
                rec.done(doc.canonical_hash(mutated), nontrivial=True,
                         sample={'class': cls, 'mutation': desc, 'lmf_version': v})

        # ---------- (d) is_lmf vs load on header variants
        lines = text.split('\n', 2)
        decl, doctype, rest = lines
        variants = [
            decl.replace('"', "'") + '\n' + doctype + '\n' + rest,
            decl + '   \n' + doctype.replace('"', "'") + ' \n' + rest,
            decl + '\r\n' + doctype + '\r\n' + rest,
            decl + doctype + '\n' + rest,
            decl + '\n\n' + doctype + '\n' + rest,
            '﻿' + text,
            decl.replace('UTF-8', 'utf-8') + '\n' + doctype + '\n' + rest,
            decl + '\n<!-- c -->\n' + doctype + '\n' + rest,
            decl + '\n' + doctype.replace('SYSTEM', 'SYSTEM ') + '\n' + rest,
        ]
        for i, t in enumerate(variants):
            hp = work / 'header.xml'
            hp.write_bytes(t.encode('utf-8'))
            a = lmf.is_lmf(hp)
            try:
                lmf.load(hp, progress_handler=None)
                b = True
            except Exception:
                b = False
            rec.event('header.compared')
            rec.event('header.accepted' if b else 'header.refused')
            if a != b:
                rec.violation('is_lmf-disagrees', f'is_lmf()={a} but load() {"accepts" if b else "rejects"} header variant #{i}')
    finally:
        mon.uninstall()
        env.rmtree(work)


def _all_skipped(path, installed):
    """Does the pre-scan say that every lexicon of the file is to be skipped (already installed, or an
    extension whose base is not installed)?  Then add() returns before it ever parses the file."""
    from wn import lmf
    try:
        infos = lmf.scan_lexicons(path)
    except Exception:
        return False
    if not infos:
        return False
    for info in infos:
        spec = f"{info['id']}:{info['version']}"
        base = info.get('extends')
        if spec in installed:
            continue
        if base and f"{base['id']}:{base['version']}" not in installed:
            continue
        return False
    return True
