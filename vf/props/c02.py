"""C02 - WN-LMF load/dump is a lossless round trip in every supported version.

For each generated file F:  R = load(F) is compared with the document model the harness wrote
(independent oracle), then for every LMF version v that can hold the resource
load(dump(R as v)) must equal the v-projection of R, and dump(load(.)) must be a byte fixed point.
"""

import copy
import random

from vf import env, wnio
from vf.diff import diff, fmt, jsonable
from vf.gen import doc
from vf.model import lmfnf
from vf.obscheck import norm_path

RULE = ('one case = one generated resource written by the harness writer with varied surface form, loaded, then '
        'dumped/loaded in every admissible LMF version (extensions and 1.1-only features from 1.1 up) plus the byte '
        'fixed point; distinct = hash of the canonical document; non-trivial = at least one version round trip compared '
        'a resource with >= 15 distinct optional features present')
ASSUMPTIONS = ['entry-level frames are the 1.0 encoding and lexicon-level frames + subcat the 1.1+ encoding (property quantifier); '
               'a version only keeps its own encoding',
               'normal-form equivalences of DESIGN section 8 (absent == empty, None == {}, default booleans)']
FLOORS = {'*': {'roundtrip.compared': 50, 'fixedpoint.compared': 20}}
N = {'quick': 1500, 'thorough': 20000}


def plan(tier, seed):
    return [{'seed': seed * 1000003 + i, 'lmfver': doc.LMF_VERSIONS[i % 4], 'empty': 0.15 if i % 5 == 0 else 0.0}
            for i in range(N[tier])]


def classify(d):
    p = norm_path(d[0])
    if p.endswith('/examples[]{keys}') and 'meta' in str(d[1]):
        return 'example-metadata-lost'
    return 'roundtrip:' + p


def run_case(case, rec):
    from wn import lmf
    r = random.Random(case['seed'])
    prof = doc.Profile(empty_optional=case['empty'], p_meta=0.6)
    res = doc.gen_resource(r, lmfver=case['lmfver'], profile=prof)
    feats = doc.features(res)
    work = env.mkdtemp('c02')
    try:
        src = wnio.write_resource(res, work, random.Random(case['seed'] + 1))
        R = lmf.load(src, progress_handler=None)
        rec.call('lmf.load')
        d = diff(lmfnf.canon(res), lmfnf.canon(R))
        rec.event('load.compared')
        if d:
            rec.violation('load:' + norm_path(d[0]), 'load() differs from the written document: ' + fmt(d),
                          {'path': d[0], 'expected': jsonable(d[1]), 'actual': jsonable(d[2])})
        has_ext = any(lx.get('extends') for lx in R['lexicons'])
        style_11 = any(lx.get('frames') or lx.get('requires') for lx in R['lexicons']) or has_ext
        for v in doc.LMF_VERSIONS:
            if v == '1.0' and has_ext:
                continue
            Rv = copy.deepcopy(R)
            Rv['lmf_version'] = v
            snapshot = copy.deepcopy(Rv)
            out = work / f'dump-{v}.xml'
            lmf.dump(Rv, out)
            rec.call('lmf.dump')
            if Rv != snapshot:
                rec.violation('dump-mutates-resource', f'dump() at {v} modified the resource it was given')
            R2 = lmf.load(out, progress_handler=None)
            want = lmfnf.canon(lmfnf.project(R, v))
            d = diff(want, lmfnf.canon(R2))
            rec.event('roundtrip.compared')
            rec.event('roundtrip.version.' + v)
            if d:
                rec.violation(classify(d), f'load(dump(R as {v})) != R projected to {v} (source {case["lmfver"]}): ' + fmt(d),
                              {'path': d[0], 'version': v, 'expected': jsonable(d[1]), 'actual': jsonable(d[2])})
            # byte fixed point in this version
            out2 = work / f'dump2-{v}.xml'
            lmf.dump(R2, out2)
            R3 = lmf.load(out2, progress_handler=None)
            out3 = work / f'dump3-{v}.xml'
            lmf.dump(R3, out3)
            rec.event('fixedpoint.compared')
            if out2.read_bytes() != out3.read_bytes():
                a, b = out2.read_bytes(), out3.read_bytes()
                i = next((i for i in range(min(len(a), len(b))) if a[i] != b[i]), min(len(a), len(b)))
                rec.violation('fixed-point', f'dump(load(dump(load(D)))) != dump(load(D)) at byte {i} (version {v}): '
                              f'{a[max(0, i - 40):i + 40]!r} vs {b[max(0, i - 40):i + 40]!r}')
            if not lmf.is_lmf(out):
                rec.violation('dump-not-lmf', f'is_lmf() rejects dump() output in version {v}')
        for f, n in feats.items():
            rec.event('feature.' + f, n)
    finally:
        env.rmtree(work)
    rec.done(doc.canonical_hash(res), nontrivial=len(feats) >= 15,
             sample={'lmf_version': res['lmf_version'], 'lexicons': [lx['id'] + ':' + lx['version'] for lx in res['lexicons']],
                     'features_present': len(feats)})
