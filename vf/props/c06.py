"""C06 - a failed add or remove leaves the database exactly as it was (fault enumeration).

One case = a database that already holds lexicons (base + extension + unrelated), a generated resource R to add
and a removal target.  Faults are enumerated over k in five classes:
  progress   raise from the caller's ProgressHandler at its k-th update()/flash() callback
  auth       deny the k-th write authorisation (SQLite authorizer; cascade sub-programs included)
  line       raise at the k-th executed source line inside wn/_add.py (sys.monitoring failpoint)
  vmabort    make the SQLite progress handler that remove() installs fire every few VM steps and abort at its k-th call
  corrupt    break one reference / duplicate one identifier of R at a chosen position
After every fault the logical dump of all tables (rowids included) must equal the dump before the call
(or, only if the SQL trace shows that the operation's transaction had already been committed when the fault hit,
the dump of the completed operation), the trace must satisfy the bracket specification, and the library must stay usable.
"""

import copy
import random
import shutil

from vf import env, wnio, dbdump
from vf.gen import doc
from vf.model.db import ModelDB
from vf.monitors.sql import SqlMonitor
from vf.monitors import faults
from vf.obscheck import compare

RULE = ('one evaluation = one injected fault (class, k) into wn.add of a generated resource or wn.remove of a base lexicon with '
        'extensions, on a database that already holds other lexicons; distinct = (case, operation, class, k); non-trivial = the '
        'fault actually interrupted the call (it raised) while the database was non-empty')
ASSUMPTIONS = ['unit of atomicity: one resource for add, one matched lexicon with its extensions for remove (DESIGN C06)',
               'a fault that fires after the operation committed is not an interrupted operation: then the completed state is the only other admissible one']
FLOORS = {'*': {'fault.progress.interrupted': 20, 'fault.auth.interrupted': 20, 'fault.line.interrupted': 40,
                'fault.vmabort.interrupted': 5, 'fault.corrupt.interrupted': 10, 'big-add.failed-adds': 2}}
N = {'quick': 32, 'thorough': 200}
LIMIT = {'quick': dict(progress=40, auth=30, line=80, vmabort=24, rline=30, rauth=20), 'thorough': dict(progress=10 ** 6, auth=10 ** 6, line=10 ** 6, vmabort=150, rline=10 ** 6, rauth=10 ** 6)}


def plan(tier, seed):
    return [{'kind': 'big-remove', 'seed': seed, 'tier': tier}, {'kind': 'big-add', 'seed': seed, 'tier': tier}] + [{'seed': seed * 1000003 + i, 'lmfver': doc.LMF_VERSIONS[1 + i % 3] if i % 4 else '1.0', 'tier': tier} for i in range(N[tier])]


def pick(ks, limit, r):
    ks = list(ks)
    if len(ks) <= limit:
        return ks
    limit = max(limit, 1)
    head = (ks[:2] + ks[-2:])[:limit]
    rest = [k for k in ks if k not in head]
    return sorted(set(head + r.sample(rest, min(len(rest), max(0, limit - len(head))))))


class Ctx:
    pass


def big_remove(case, rec):
    """a removal large enough for the SQLite progress handler that remove() installs to fire at its real interval
    (every 100000 VM instructions): the caller's handler is only informed, the removal must complete"""
    import wn
    from wn.util import ProgressHandler
    r = random.Random(case['seed'])
    prof = doc.Profile(max_entries=700, max_synsets=700, hostile=0.05, idstyle='prefixed')
    lex = None
    while lex is None or len(lex.get('entries', [])) < 400:
        lex = doc.gen_lexicon(r, '1.1', 'bigrm', '1', prof)
    small = doc.gen_lexicon(r, '1.1', 'keep', '1', doc.Profile(max_entries=3, max_synsets=3))
    calls = {'n': 0}

    class Counting(ProgressHandler):
        def update(self, n=1, force=False):
            calls['n'] += 1
            return super().update(n, force)

    work = env.mkdtemp('c06big')
    try:
        with env.FreshDB() as fdb:
            wnio.add(wnio.write_resource({'lmf_version': '1.1', 'lexicons': [small, lex]}, work, random.Random(1)))
            before = dbdump.dump(fdb.path)
            wn.remove('bigrm:1', progress_handler=Counting)
            rec.event('big-remove.handler-calls', calls['n'])
            left = sorted(x.specifier() for x in wn.lexicons())
            if left != ['keep:1']:
                rec.violation('remove:big-lexicon', f'after removing a {len(lex["entries"])}-entry lexicon the installed set is {left}')
            for key, msg in dbdump.audit(fdb.path):
                rec.violation('remove:big-lexicon:' + key, msg)
            after = dbdump.dump(fdb.path)
            # the removal only takes rows away (what must go is decided by the ownership audit above: no row may be
            # left that belongs to no installed lexicon); the kept lexicon's rows are untouched
            for t in dbdump.OWNED:
                extra = [row for row in after[t] if row not in before[t]]
                if extra:
                    rec.violation('remove:big-lexicon', f'table {t} has rows after the removal that were not there before: {extra[:2]}')
                    break
            if sum(len(after[t]) for t in dbdump.OWNED) >= sum(len(before[t]) for t in dbdump.OWNED):
                rec.violation('remove:big-lexicon', 'the owned tables hold as many rows after the removal of the large lexicon as before')
    finally:
        env.rmtree(work)
    rec.done(['big-remove', case['seed']], nontrivial=True, sample={'operation': 'remove of a large lexicon', 'entries': len(lex['entries']),
                                                                     'handler_calls': calls['n']})


def big_add(case, rec):
    """an add large enough to cross the library's batch size (1000 rows per executemany) in every bulk table, failing late:
    whatever a batch boundary does (flush, commit, checkpoint) must still be undone by the failure"""
    import wn
    r = random.Random(case['seed'] + 17)
    prof = doc.Profile(max_entries=1500, max_synsets=1500, hostile=0.02, idstyle='prefixed')
    lex = None
    while lex is None or len(lex.get('entries', [])) < 1100 or len(lex.get('synsets', [])) < 1100:
        lex = doc.gen_lexicon(r, '1.1', 'bigadd', '1', prof)
    small = doc.gen_lexicon(r, '1.1', 'keep', '1', doc.Profile(max_entries=3, max_synsets=3))
    good = {'lmf_version': '1.1', 'lexicons': [lex]}
    work = env.mkdtemp('c06bigadd')
    tried = 0
    try:
        with env.FreshDB() as fdb:
            wnio.add(wnio.write_resource({'lmf_version': '1.1', 'lexicons': [small]}, work, random.Random(1), name='small.xml'))
            before = dbdump.dump(fdb.path)
            for kind, bad in corruptions(good, r):
                path = wnio.write_resource(bad, work, random.Random(2), name='bad.xml')
                try:
                    wnio.add(path)
                except Exception as exc:   # noqa: BLE001 - any failure is the expected outcome
                    del exc
                else:
                    continue   # the library accepts this document (duplicates may be legal): nothing to decide
                tried += 1
                rec.event('big-add.failed-adds')
                after = dbdump.dump(fdb.path)
                changed = [t for t in before if before[t] != after.get(t)]
                if changed:
                    rec.violation('add:big-lexicon:' + kind.split('@')[0], f'failed add of a {len(lex["entries"])}-entry lexicon ({kind}) '
                                  f'changed tables {changed[:6]}; lexicons now {sorted(x.specifier() for x in wn.lexicons())}')
                    break
            wnio.add(wnio.write_resource(good, work, random.Random(3), name='good.xml'))
            if sorted(x.specifier() for x in wn.lexicons()) != ['bigadd:1', 'keep:1']:
                rec.violation('add:big-lexicon:retry', 'a valid add after the failed large adds did not install the lexicon')
            elif len(wn.Wordnet('bigadd:1').words()) != len(lex['entries']):
                rec.violation('add:big-lexicon:retry', 'the valid add after the failed large adds stored a different number of words')
            for key, msg in dbdump.audit(fdb.path):
                rec.violation('add:big-lexicon:' + key, msg)
    finally:
        env.rmtree(work)
    rec.done(['big-add', case['seed']], nontrivial=True, sample={'operation': 'failed adds of a large lexicon', 'entries': len(lex['entries']),
                                                                  'synsets': len(lex['synsets']), 'failed_adds': tried})


def run_case(case, rec):
    if case.get('kind') == 'big-add':
        return big_add(case, rec)
    if case.get('kind') == 'big-remove':
        return big_remove(case, rec)
    import wn
    import wn._add as wnadd
    r = random.Random(case['seed'])
    lim = LIMIT[case['tier']]
    v = case['lmfver']
    prof = doc.Profile(max_entries=4, max_synsets=4)
    pre_v = '1.1'
    base = doc.gen_lexicon(r, pre_v, 'pbase', '1', prof)
    ext = doc.gen_lexicon(r, pre_v, 'pext', '1', prof, base=base)
    ext2 = doc.gen_lexicon(r, pre_v, 'pext2', '1', prof, base=ext)
    other = doc.gen_lexicon(r, pre_v, 'pother', '1', prof)
    pre = [{'lmf_version': pre_v, 'lexicons': [base, other]}, {'lmf_version': pre_v, 'lexicons': [ext]},
           {'lmf_version': pre_v, 'lexicons': [ext2]}]
    R = doc.gen_resource(r, lmfver=v, profile=prof, n_lex=r.choice([1, 2, 3]), lexids=['ra', 'rb', 'rc'], ext_p=0.0)
    work = env.mkdtemp('c06')
    mon = SqlMonitor(rec)
    mon.install()
    counter = faults.new_counter()
    Faulty = faults.make_faulty_progress(counter)
    lf = faults.LineFailpoints([wnadd])
    real_connect = wnadd.connect
    try:
        with env.FreshDB() as fdb:
            m = ModelDB()
            for i, res in enumerate(pre):
                wnio.add(wnio.write_resource(res, work, random.Random(i), name=f'pre{i}.xml'))
                m.add_resource(res)
            rpath = wnio.write_resource(R, work, random.Random(case['seed'] + 5), name='R.xml')
            before = dbdump.dump(fdb.path)
            saved = work / 'saved'
            env.close_pool()
            shutil.copytree(fdb.dir, saved)

            def restore():
                env.close_pool()
                shutil.rmtree(fdb.dir)
                shutil.copytree(saved, fdb.dir)
                env.use_db_dir(fdb.dir)

            # ---------------- dry run of the add on a copy: counts K (callbacks), W (write authorisations), L (line events)
            dry = work / 'dry'
            shutil.copytree(saved, dry)
            env.use_db_dir(dry)
            counter.n, counter.fail_at = 0, None
            with mon.call('add'), lf:
                wn.add(rpath, progress_handler=Faulty)
            K, W, L = counter.n, mon.write_auths, lf.n
            first_line = {}
            # first event index of every distinct (function, line): replay to learn the indices
            env.close_pool()
            shutil.rmtree(dry)
            shutil.copytree(saved, dry)
            env.use_db_dir(dry)
            seen = []
            orig = lf._line

            def rec_line(code, lineno):
                lf.n += 1
                key = (code.co_name, lineno)
                if key not in first_line:
                    first_line[key] = lf.n
            import sys
            sys.monitoring.register_callback(lf.tool, sys.monitoring.events.LINE, rec_line)
            with lf:
                wn.add(rpath, progress_handler=Faulty)
            sys.monitoring.register_callback(lf.tool, sys.monitoring.events.LINE, orig)
            after_add = dbdump.dump(dry / 'wn.db')
            env.close_pool()
            shutil.rmtree(dry)
            env.use_db_dir(fdb.dir)
            rec.event('dry.callbacks', K)
            rec.event('dry.write_auths', W)
            rec.event('dry.line_events', L)
            rec.add_extra('distinct_add_lines', [f'{a}:{b}' for a, b in sorted(first_line)])

            state = {'before': before}

            def inject(op, cls, k, run, completed_dump):
                """run() performs the real call with the fault armed; verdict on the database afterwards."""
                rec.event(f'fault.{cls}.injected')
                failed = None
                with mon.call(op, deny_at=k if cls in ('auth', 'rauth') else None):
                    try:
                        run()
                    except BaseException as exc:  # noqa: B036 - any way of failing counts
                        if isinstance(exc, (KeyboardInterrupt, SystemExit)):
                            raise
                        # keep no reference to the exception: its traceback holds the library's frames (and
                        # their cursors) alive, which a caller that has handled the failure does not do
                        failed = (type(exc).__name__, str(exc)[:80])
                        del exc
                if mon.denied:
                    rec.add_extra('writes_denied_at', [f'{op}:{mon.denied[0]}:{mon.denied[1]}'])
                kinds = [kd for kd, _ in mon.stmts]
                tail_commit = False
                for kd in reversed(kinds):
                    if kd in ('COMMIT', 'ROLLBACK', 'WRITE', 'BEGIN'):
                        tail_commit = kd == 'COMMIT'
                        break
                now = dbdump.dump(fdb.path)
                if failed is None:
                    rec.event(f'fault.{cls}.survived')
                    # the call absorbed the fault or the fault point was not reached: it must then have completed
                    if completed_dump is not None and now != completed_dump:
                        rec.violation(f'{op}:survived-but-incomplete', f'{op} survived fault {cls}#{k} but the database is not the completed state: '
                                      + str(dbdump.first_difference(completed_dump, now)), {'class': cls, 'k': k})
                    restore()
                    rec.done(f'{case["seed"]}/{op}/{cls}/{k}', nontrivial=False)
                    return
                rec.event(f'fault.{cls}.interrupted')
                rec.event('exc.' + failed[0])
                ok = now == state['before']
                if not ok and tail_commit and now == completed_dump:
                    rec.event(f'fault.{cls}.after-commit')
                    restore()
                    rec.done(f'{case["seed"]}/{op}/{cls}/{k}', nontrivial=False)
                    return
                if not ok:
                    rec.violation(f'{op}:not-atomic', f'{op} failed at {cls}#{k} ({failed[0]}: {failed[1]}) and left the database changed: '
                                  + str(dbdump.first_difference(state['before'], now)), {'class': cls, 'k': k})
                    restore()
                else:
                    for key, msg in mon.check_atomic_failure() + mon.drain_spec_violations():
                        rec.violation(f'{op}:sql:{key}', f'{cls}#{k}: {msg}')
                    # usable afterwards: a read through the same pooled connection
                    if sorted(lx.specifier() for lx in wn.lexicons()) != sorted(m.lex):
                        rec.violation(f'{op}:unusable-after-failure', f'wn.lexicons() wrong after {cls}#{k}')
                    if op == 'remove' and cls != 'line':
                        # (a line failpoint can fire between two statements of remove() itself - e.g. right after the handler
                        # was installed and before the try block that removes it - where no operation the statement speaks of
                        # can fail)
                        _handler_gone(rec, counter, f'{cls}#{k}')
                rec.done(f'{case["seed"]}/{op}/{cls}/{k}', nontrivial=True,
                         sample={'operation': op, 'class': cls, 'k': k, 'exception': failed[0],
                                 'resource': [lx['id'] for lx in R['lexicons']]})

            # ---------------- faults in add(R)
            def do_add():
                wn.add(rpath, progress_handler=Faulty)

            for k in pick(range(1, K + 1), lim['progress'], r):
                counter.n, counter.fail_at = 0, k
                inject('add', 'progress', k, do_add, after_add)
            counter.fail_at = None
            for k in pick(range(1, W + 1), lim['auth'], r):
                counter.n = 0
                env.use_db_dir(fdb.dir)   # fresh connection: the authorizer is consulted when a statement is prepared
                inject('add', 'auth', k, do_add, after_add)
            line_ks = sorted(first_line.values())
            for k in pick(line_ks, lim['line'], r):
                counter.n = 0
                lf.fail_at = k

                def run_line():
                    with lf:
                        wn.add(rpath, progress_handler=Faulty)
                inject('add', 'line', k, run_line, after_add)
                if lf.fired:
                    rec.state('failpoint %s:%d' % lf.fired)
            lf.fail_at = None

            # ---------------- a removal right after a failed add, on the same pooled connection
            counter.n, counter.fail_at = 0, max(1, K // 2)
            try:
                wn.add(rpath, progress_handler=Faulty)
            except Exception:
                pass
            counter.fail_at = None
            wn.remove('pother:1', progress_handler=None)
            rec.event('remove-after-failed-add')
            for key, msg in dbdump.audit(fdb.path):
                rec.violation('remove-after-failed-add:' + key, 'removing a lexicon right after a failed add: ' + msg)
            left = sorted(lx.specifier() for lx in wn.lexicons())
            if left != sorted(sp for sp in m.lex if sp != 'pother:1'):
                rec.violation('remove-after-failed-add:installed-set', f'installed after the removal: {left}')
            restore()

            # ---------------- corrupted documents
            for kind, bad in corruptions(R, r):
                bpath = wnio.write_resource(bad, work, random.Random(3), name='bad.xml')

                def run_bad():
                    wn.add(bpath, progress_handler=Faulty)
                counter.n = 0
                inject('add', 'corrupt', kind, run_bad, None)

            # ---------------- a malformed file (rejected before anything is parsed), then the *same path* with the repaired content
            # (inside a package directory half of the time: the file is then found by inspecting the directory)
            again = work / 'again.xml'
            target_again = again
            if r.random() < 0.5:
                (work / 'again-pkg').mkdir()
                again = work / 'again-pkg' / 'again.xml'
                target_again = work / 'again-pkg'
            good_bytes = rpath.read_bytes()
            again.write_bytes(good_bytes.replace(b'<!DOCTYPE', b'<!DOCTYP', 1))

            def run_malformed():
                wn.add(target_again, progress_handler=Faulty)
            counter.n = 0
            inject('add', 'corrupt', 'malformed-header', run_malformed, None)
            again.write_bytes(good_bytes)

            # ---------------- recovery: the real add now succeeds and gives the normal result
            counter.n = 0
            with mon.call('add'):
                wn.add(target_again, progress_handler=Faulty)
            for key, msg in mon.check_atomic_success():
                rec.violation('add:sql:' + key, msg)
            m.add_resource(R)
            now = dbdump.dump(fdb.path)
            if now != after_add:
                rec.violation('add:recovery-differs', 'add after the injected failures gives another database than the same add without them: '
                              + str(dbdump.first_difference(after_add, now)))
            for sp in [f"{lx['id']}:{lx['version']}" for lx in R['lexicons']]:
                compare(rec, m, [sp], label='C06 recovery add')
            rec.event('recovery.add')

            # ---------------- faults while an ILI index is added (same entry point, other code path)
            env.close_pool()
            shutil.rmtree(saved)
            shutil.copytree(fdb.dir, saved)
            env.use_db_dir(fdb.dir)
            state['before'] = dbdump.dump(fdb.path)
            ili_path = work / 'cili.tsv'
            rows = ['ili\tstatus\tdefinition'] + [f'i{n}\t{r.choice(["active", "deprecated", "brand new status"])}\tdefinition {n}'
                                                   for n in r.sample(range(1, 40), 12)]
            ili_path.write_text('\n'.join(rows) + '\n')
            old_batch = getattr(wnadd, 'BATCH_SIZE', None)
            if old_batch is not None:
                wnadd.BATCH_SIZE = 3          # several batches, so a fault can fall between two of them
            shutil.copytree(saved, dry)
            env.use_db_dir(dry)
            counter.n, counter.fail_at = 0, None
            first_iline = {}

            def rec_iline(code, lineno):
                lf.n += 1
                first_iline.setdefault((code.co_name, lineno), lf.n)
            sys.monitoring.register_callback(lf.tool, sys.monitoring.events.LINE, rec_iline)
            with mon.call('add-ili'), lf:
                wn.add(ili_path, progress_handler=Faulty)
            sys.monitoring.register_callback(lf.tool, sys.monitoring.events.LINE, orig)
            IK, IW = counter.n, mon.write_auths
            after_ili = dbdump.dump(dry / 'wn.db')
            env.close_pool()
            shutil.rmtree(dry)
            env.use_db_dir(fdb.dir)
            rec.event('dry.ili.callbacks', IK)

            def do_ili():
                wn.add(ili_path, progress_handler=Faulty)

            for k in pick(range(1, IK + 1), lim['rauth'], r):
                counter.n, counter.fail_at = 0, k
                inject('add-ili', 'progress', k, do_ili, after_ili)
            counter.fail_at = None
            for k in pick(range(1, IW + 1), lim['rauth'], r):
                counter.n = 0
                env.use_db_dir(fdb.dir)
                inject('add-ili', 'auth', k, do_ili, after_ili)
            for k in pick(sorted(first_iline.values()), lim['rline'], r):
                counter.n = 0
                lf.fail_at = k

                def run_iline():
                    with lf:
                        wn.add(ili_path, progress_handler=Faulty)
                inject('add-ili', 'line', k, run_iline, after_ili)
            lf.fail_at = None
            counter.n = 0
            wn.add(ili_path, progress_handler=Faulty)
            if dbdump.dump(fdb.path) != after_ili:
                rec.violation('add-ili:recovery-differs', 'ILI add after the injected failures differs from the same add without them')
            rec.event('recovery.add-ili')
            if old_batch is not None:
                wnadd.BATCH_SIZE = old_batch
            # the model needs the ILI rows for the observations that follow
            m.add_ili([dict(zip(['ili', 'status', 'definition'], line.split('\t'))) for line in rows[1:]])

            # ---------------- faults in remove(pbase) - a base with an extension chain
            env.close_pool()
            shutil.rmtree(saved)
            shutil.copytree(fdb.dir, saved)
            env.use_db_dir(fdb.dir)
            state['before'] = dbdump.dump(fdb.path)
            target = 'pbase:1'
            # dry run on a copy
            shutil.copytree(saved, dry)
            env.use_db_dir(dry)
            counter.n, counter.fail_at = 0, None
            first_rline = {}

            def rec_rline(code, lineno):
                lf.n += 1
                first_rline.setdefault((code.co_name, lineno), lf.n)
            sys.monitoring.register_callback(lf.tool, sys.monitoring.events.LINE, rec_rline)
            with mon.call('remove'), lf:
                wn.remove(target, progress_handler=Faulty)
            sys.monitoring.register_callback(lf.tool, sys.monitoring.events.LINE, orig)
            RK, RW = counter.n, mon.write_auths
            after_remove = dbdump.dump(dry / 'wn.db')
            env.close_pool()
            shutil.rmtree(dry)
            env.use_db_dir(fdb.dir)
            rec.event('dry.remove.callbacks', RK)
            rec.event('dry.remove.write_auths', RW)

            def do_remove():
                wn.remove(target, progress_handler=Faulty)

            for k in range(1, RK + 1):
                counter.n, counter.fail_at = 0, k
                inject('remove', 'progress', k, do_remove, after_remove)
            counter.fail_at = None
            for k in pick(range(1, RW + 1), lim['rauth'], r):
                counter.n = 0
                env.use_db_dir(fdb.dir)
                inject('remove', 'auth', k, do_remove, after_remove)
            for k in pick(sorted(first_rline.values()), lim['rline'], r):
                counter.n = 0
                lf.fail_at = k

                def run_rline():
                    with lf:
                        wn.remove(target, progress_handler=Faulty)
                inject('remove', 'line', k, run_rline, after_remove)
            lf.fail_at = None
            # mid-statement aborts: count the handler invocations per interval, then abort at sampled k
            for interval in (1, 7, 40):
                wnadd.connect = lambda: faults.ConnProxy(real_connect(), interval)
                shutil.copytree(saved, dry)
                env.use_db_dir(dry)
                counter.n, counter.fail_at = 0, None
                wn.remove(target, progress_handler=Faulty)
                total = counter.n
                env.close_pool()
                shutil.rmtree(dry)
                env.use_db_dir(fdb.dir)
                rec.event('dry.vmabort.callbacks', total)
                for k in pick(range(1, total + 1), max(2, lim['vmabort'] // 3), r):
                    counter.n, counter.fail_at = 0, k
                    inject('remove', 'vmabort', k, do_remove, after_remove)
                wnadd.connect = real_connect
            counter.fail_at = None
            # the lexicon and its extensions are still fully intact, and a real removal then works
            compare(rec, m, ['pbase:1', 'pext:1', 'pext2:1'], label='C06 after interrupted removals')
            counter.n = 0
            with mon.call('remove'):
                wn.remove(target, progress_handler=Faulty)
            for key, msg in mon.check_atomic_success():
                rec.violation('remove:sql:' + key, msg)
            m.remove(target)
            _handler_gone(rec, counter, 'successful removal')
            if dbdump.dump(fdb.path) != after_remove:
                rec.violation('remove:recovery-differs', 'remove after the injected failures differs from the same remove without them')
            if sorted(lx.specifier() for lx in wn.lexicons()) != sorted(m.lex):
                rec.violation('remove:installed-set', 'installed set after the final removal differs from the model')
            for key, msg in dbdump.audit(fdb.path):
                rec.violation('audit:' + key, msg)
            rec.event('recovery.remove')
        # ---------------- a brand-new data directory whose very first operation is an add that fails
        with env.FreshDB(init=False) as fdb2:
            # (the database file is created and initialised inside this first, failing call)
            try:
                wn.add(ili_path, progress_handler=type('P', (Faulty,), {'flash': lambda self, msg: (_ for _ in ()).throw(faults.InjectedFault('first flash'))}))
            except Exception:
                pass
            counter.n, counter.fail_at = 0, max(2, K // 3)
            try:
                wn.add(rpath, progress_handler=Faulty)
            except Exception:
                pass
            counter.fail_at = None
            m0 = ModelDB()
            counter.n = 0
            wn.add(rpath, progress_handler=Faulty)
            m0.add_resource(R)
            rec.event('first-operation-fails')
            for sp in [f"{lx['id']}:{lx['version']}" for lx in R['lexicons']]:
                compare(rec, m0, [sp], label='C06 add after the first-ever operation failed')
            for key, msg in dbdump.audit(fdb2.path):
                rec.violation('first-operation-fails:' + key, msg)
    finally:
        wnadd.connect = real_connect
        mon.uninstall()
        import sys as _s
        _s.monitoring.register_callback(lf.tool, _s.monitoring.events.LINE, None)
        env.rmtree(work)


def _handler_gone(rec, counter, label):
    """After remove() has returned or raised, the caller's progress handler must not be invoked any more: a long-running
    statement on the pooled connection (several 100 000 virtual-machine steps, more than the interval remove() uses)
    must not reach it.  A handler left installed makes a later, larger operation fail or report to a dead object."""
    import wn._db
    n0 = counter.n
    wn._db.connect().execute('WITH RECURSIVE c(x) AS (SELECT 1 UNION ALL SELECT x + 1 FROM c WHERE x < 250000) SELECT count(*) FROM c').fetchone()
    rec.event('handler-gone.checked')
    if counter.n != n0:
        rec.violation('remove:handler-left-installed', f'after remove() ended ({label}) the progress handler given to it was still called '
                      f'{counter.n - n0} times by a later statement on the same connection')


def corruptions(R, r):
    """(kind, resource) pairs: R with exactly one reference broken or one identifier duplicated."""
    out = []

    def variant():
        return copy.deepcopy(R)

    nlex = len(R['lexicons'])
    for li in {0, nlex - 1}:
        lx = R['lexicons'][li]
        senses = [(ei, si) for ei, e in enumerate(lx.get('entries', [])) for si, s in enumerate(e.get('senses', []))]
        if senses:
            ei, si = r.choice(senses)
            b = variant()
            b['lexicons'][li]['entries'][ei]['senses'][si]['synset'] = 'no-such-synset'
            out.append((f'sense->synset@lex{li}', b))
            b = variant()
            b['lexicons'][li]['entries'][ei]['senses'][si].setdefault('relations', []).append(
                {'target': 'no-such-target', 'relType': 'also', 'meta': None})
            out.append((f'sense-relation-target@lex{li}', b))
        sss = lx.get('synsets', [])
        if sss:
            b = variant()
            b['lexicons'][li]['synsets'][r.randrange(len(sss))].setdefault('relations', []).append(
                {'target': 'no-such-synset', 'relType': 'hypernym', 'meta': None})
            out.append((f'synset-relation-target@lex{li}', b))
        ents = lx.get('entries', [])
        if ents:
            b = variant()
            dup = copy.deepcopy(ents[r.randrange(len(ents))])
            dup['senses'] = []
            dup.pop('senses')
            b['lexicons'][li]['entries'].append(dup)
            out.append((f'duplicate-entry-id@lex{li}', b))
            b = variant()
            e = b['lexicons'][li]['entries'][r.randrange(len(ents))]
            e.setdefault('forms', [])
            e['forms'] = [f for f in e['forms']] + [{'writtenForm': 'dupform', 'script': 'Latn'}, {'writtenForm': 'dupform', 'script': 'Latn'}]
            out.append((f'duplicate-form@lex{li}', b))
    return out
