"""C16 - results are a function of database content and arguments only.

One case = one generated database (graph lexicons with planted ties: several lowest common hypernyms, several shortest paths;
general lexicons with verbs carrying several frames on several senses, duplicated and non-reciprocated relations, an extension).
The battery (vf.battery: every public query, taxonomy, similarity, IC, Morphy, validate, dump, export call) runs in separate
processes started with different PYTHONHASHSEED values on copies of the same database file and twice inside each process;
the canonical transcripts must be byte-identical, and the SQL trace of the battery must contain no write.
"""

import json
import os
import random
import shutil
import subprocess
import sys

from vf import env, wnio
from vf.gen import doc, graphs

RULE = ('one evaluation = one database x one hash seed (a full battery transcript of several thousand call lines, executed twice); distinct = '
        'database seed + hash seed; non-trivial = the transcript has at least 500 lines and the database contains a planted tie')
ASSUMPTIONS = ['the elements of a returned set carry no order (compared sorted); lists and mappings keep theirs',
               '"whatever the hash seed" is decided on a finite sample of seeds']
FLOORS = {'*': {'transcript.lines': 20000, 'seed.pairs.compared': 10}}
N = {'quick': 4, 'thorough': 60}
SEEDS = {'quick': [0, 1, 2, 3], 'thorough': [0, 1, 2, 3, 4, 5, 6, 7, 11, 42, 1000, 4294967295]}
TIMEOUT = {'quick': 1500, 'thorough': 6 * 3600}


def plan(tier, seed):
    return [{'seed': seed * 1000003 + i, 'hashseeds': SEEDS[tier]} for i in range(N[tier])]


TIES = [
    (6, [(5, 3), (5, 4), (3, 1), (3, 2), (4, 1), (4, 2), (1, 0), (2, 0)]),       # two lowest common hypernyms at different distances
    (5, [(4, 2), (4, 3), (2, 1), (3, 1), (1, 0), (2, 0)]),
    (7, [(6, 4), (6, 5), (4, 2), (5, 3), (2, 0), (3, 0), (4, 3), (5, 2), (2, 1), (3, 1)]),
]


def classify(line):
    if ' wup(' in line:
        return 'wup-depends-on-set-order'
    if 'lowest_common_hypernyms(' in line or ' shortest_path(' in line:
        return 'taxonomy-set-order'
    if line.startswith('export('):
        return 'export-frame-order'
    if line.startswith('validate('):
        return 'validate-item-order'
    return 'transcript:' + line.split(' -> ')[0].split('(')[0].split(' ')[-1][:40]


def run_case(case, rec):
    r = random.Random(case['seed'])
    work = env.mkdtemp('c16')
    try:
        lexs = []
        tie = r.choice(TIES)
        lexs.append(graphs.lexicon_for(0, tie, lambda j: 'n', r))
        lexs.append(graphs.lexicon_for(1, graphs.random_graph(r, n=r.randint(5, 7), kind=r.choice(['diamonds', 'multiroot', 'cyclic'])),
                                       lambda j: 'v', r))
        p10 = doc.Profile(max_entries=4, max_synsets=4, frames='entry', dup_rel=0.4, max_rel=4, p_rel=0.9, pos_pool=['v', 'n'],
                          hostile=0.2, max_senses=3, idstyle='prefixed')
        gen10 = doc.gen_lexicon(r, '1.0', 'q', '1', p10)
        p11 = doc.Profile(max_entries=4, max_synsets=4, dup_rel=0.3, p_rel=0.8, idstyle='prefixed', ili='shared')
        base = doc.gen_lexicon(r, '1.1', 'z', '1', p11)
        ext = doc.gen_lexicon(r, '1.1', 'zx', '1', p11, base=base)
        # several entries that one inflected query maps to (axes -> axe, ax, axis; leaves -> leaf, leave; ...)
        morph = {'id': 'mo', 'label': 'morph', 'language': 'en', 'email': 'e', 'license': 'l', 'version': '1', 'meta': None,
                 'synsets': [{'id': f'mo-ss{i}', 'ili': '', 'partOfSpeech': p_, 'meta': None} for i, p_ in enumerate('nnnnvvn')],
                 'entries': [{'id': f'mo-e{i}', 'meta': None, 'lemma': {'writtenForm': wf, 'partOfSpeech': p_},
                              'senses': [{'id': f'mo-s{i}', 'synset': f'mo-ss{i}', 'meta': None}]}
                             for i, (wf, p_) in enumerate([('axe', 'n'), ('ax', 'n'), ('axis', 'n'), ('leaf', 'n'), ('leave', 'v'),
                                                           ('ax', 'v'), ('leave', 'n')])]}
        res10 = {'lmf_version': '1.0', 'lexicons': lexs + [gen10, morph]}
        # an expand pair: 'ge' has the hypernym structure, 'gt' has the same concepts (ILIs) but no relations of its own,
        # so what gt's synsets inherit depends on the Wordnet's expand setting only
        ge = graphs.lexicon_for(8, tie, lambda j: 'n', None)
        gt = graphs.lexicon_for(9, (tie[0], []), lambda j: 'n', None)
        for lx_ in (ge, gt):
            for j, ss in enumerate(lx_['synsets']):
                ss['ili'] = f'i9{j}'
        # gp has the same concepts except two: they appear as placeholder synsets on its hypernym paths
        gp = graphs.lexicon_for(7, (tie[0], []), lambda j: 'n', None)
        for j, ss in enumerate(gp['synsets']):
            ss['ili'] = f'i9{j}'
        gone = {f'g7-n{j}' for j in (1, 2)}
        gp['synsets'] = [ss for ss in gp['synsets'] if ss['id'] not in gone]
        gp['entries'] = [e for e in gp['entries'] if e['senses'][0]['synset'] not in gone]
        gp['requires'] = [{'id': 'g8', 'version': '1'}]
        gt['requires'] = [{'id': 'g8', 'version': '1'}]
        res_exp = {'lmf_version': '1.1', 'lexicons': [ge, gt, gp]}
        res11 = {'lmf_version': '1.1', 'lexicons': [base]}
        resx = {'lmf_version': '1.1', 'lexicons': [ext]}
        with env.FreshDB(keep=True) as fdb:
            f10 = wnio.write_resource(res10, work, random.Random(1), name='r10.xml')
            wnio.add(f10)
            wnio.add(wnio.write_resource(res11, work, random.Random(2), name='r11.xml'))
            wnio.add(wnio.write_resource(resx, work, random.Random(3), name='rx.xml'))
            wnio.add(wnio.write_resource(res_exp, work, random.Random(4), name='rexp.xml'))
            dbdir = fdb.dir
        outs = {}
        failed = {}
        for hs in case['hashseeds']:
            cp = work / f'db-{hs}'
            shutil.copytree(dbdir, cp)
            out = work / f'out-{hs}.json'
            e = dict(os.environ)
            e['PYTHONHASHSEED'] = str(hs)
            order = 'reverse-first' if case['hashseeds'].index(hs) % 2 else 'forward-first'
            rec.event('process.' + order)
            p = subprocess.run([sys.executable, '-m', 'vf.battery', str(cp), str(out), str(f10), order], env=e, capture_output=True,
                               text=True, timeout=1200)
            if p.returncode != 0 or not out.exists():
                failed[hs] = p.stderr[-1500:]
                continue
            outs[hs] = json.loads(out.read_text())
            rec.event('transcript.lines', len(outs[hs]['lines']))
            for name, n in outs[hs]['calls'].items():
                rec.call(name.split(' ')[-1], n)
            for x in outs[hs]['extra']:
                key = 'repeat-differs' if x.startswith('REPEAT') else 'call-order-dependent' if x.startswith('ORDER') else 'write-in-readonly-call'
                rec.violation(key, f'PYTHONHASHSEED={hs}: {x}')
            rec.done([case['seed'], hs], nontrivial=len(outs[hs]['lines']) >= 500,
                     sample={'hashseed': hs, 'lines': len(outs[hs]['lines']), 'first_lines': outs[hs]['lines'][:3]})
        env.rmtree(dbdir)
        if failed and outs:
            # the battery died under some hash seeds and ran through under others: the outcome depends on the seed
            hs = sorted(failed)[0]
            rec.violation('battery-raised-under-some-seeds', f'the battery failed under PYTHONHASHSEED in {sorted(failed)} but not in '
                          f'{sorted(outs)}: {failed[hs][-600:]}')
        elif failed:
            # the same failure whatever the seed: nothing about reproducibility was observed for this database (inconclusive)
            hs = sorted(failed)[0]
            rec.harness_errors.append(f'battery failed under every hash seed: {failed[hs]}')
        seeds = sorted(outs)
        for a, b in zip(seeds, seeds[1:]):
            rec.event('seed.pairs.compared')
            la, lb = outs[a]['lines'], outs[b]['lines']
            if la != lb:
                seen = set()
                for x, y in zip(la, lb):
                    if x != y:
                        key = classify(x)
                        if key not in seen:
                            seen.add(key)
                            rec.violation(key, f'PYTHONHASHSEED={a} vs {b}: {x[:400]}  |||  {y[:400]}')
                if len(la) != len(lb):
                    rec.violation('transcript-length', f'PYTHONHASHSEED={a}: {len(la)} lines, {b}: {len(lb)} lines')
        rec.state(case['seed'])
    finally:
        env.rmtree(work)
