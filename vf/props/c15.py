"""C15 - information-content weights are conserved, counted once and monotone.

Graphs (trees, diamonds, stacked diamonds, several roots, cycles) with a/s mixes, words that are unambiguous, ambiguous
(several synsets), multi-word, stored only as a non-lemma form; corpora as multisets of tokens including unknown ones;
distribute_weight in {True, False}; smoothing in {1.0, 0.5, 0.001, 0}.  wn.ic.compute() is compared with exact rational
arithmetic over the ancestor sets (vf.model.taxo.ic_weights): totals per part of speech (conservation), every synset's
weight (once per word synset however many paths converge), then monotonicity along real hypernym links, probability in
(0,1] and information content >= 0 and non-increasing upwards; wn.ic.load() on a generated weights file.
"""

import math
import random
from collections import Counter

from vf import env, wnio
from vf.gen import graphs
from vf.model.taxo import G, ic_weights
from vf.model import search as ms

ID = 'C15'
RULE = ('one evaluation = one (graph, word inventory, corpus, distribute_weight, smoothing) tuple; distinct = its hash; non-trivial = at '
        'least two hypernym paths converge on some synset that receives weight, or the graph has a cycle, or a corpus word is ambiguous')
ASSUMPTIONS = ['hypernym links connect synsets of one part of speech (a and s count as one); cross-part-of-speech links are outside the quantifier']
FLOORS = {'*': {'weights.compared': 2000, 'convergent.cases': 20, 'monotone.checked': 1000, 'load.compared': 10}}
N = {'quick': 150, 'thorough': 5000}


def plan(tier, seed):
    return [{'seed': seed * 1000003 + i} for i in range(N[tier])] + [{'kind': 'pytest-under-contracts', 'seed': 0}]


def build(r):
    kind = r.choice(['forest', 'diamonds', 'diamonds', 'multiroot', 'dag', 'cyclic', 'tiny'])
    if kind == 'tiny':
        g = r.choice([(4, [(3, 1), (3, 2), (1, 0), (2, 0)]), (3, [(2, 0), (2, 1)]), (2, [(1, 0), (0, 1)]), (1, [(0, 0)]),
                      (5, [(4, 3), (4, 2), (3, 1), (2, 1), (1, 0), (4, 0)])])
    else:
        g = graphs.random_graph(r, n=r.randint(3, 9), kind=kind)
    mode = r.choice(['n', 'v', 'as', 'r'])
    lab = [r.choice('as') if mode == 'as' else mode for _ in range(g[0])]
    if r.random() < 0.3:
        # isolated synsets of parts of speech that information content does not cover (words for them occur in the corpus)
        for _ in range(r.randint(1, 2)):
            lab.append(r.choice(['x', 'u', 'c', 'p', 't']))
        g = (len(lab), g[1])
    pos_of = lambda j: lab[j]  # noqa: E731
    return g, pos_of


def run_case(case, rec):
    if case.get('kind') == 'pytest-under-contracts':
        from vf import contracts_case
        return contracts_case.run(rec, ID)
    import wn
    import wn.ic
    r = random.Random(case['seed'])
    (n, edges), pos_of = build(r)
    g = G(n, edges)
    lex = graphs.lexicon_for(0, (n, edges), pos_of, r)
    # richer word inventory: ambiguous words, a multi-word lemma, a word reachable only through a non-lemma form
    extra = []
    for k in range(r.randint(0, 3)):
        nodes = r.sample(range(n), min(n, r.randint(2, 3)))
        lemma = r.choice(['amb', 'two words', 'Ambi'])
        extra.append((f'x{k}', lemma + str(k), r.choice([[], ['alt form %d' % k]]), nodes))
    for k, (eid, lemma, others, nodes) in enumerate(extra):
        e = {'id': f'g0-{eid}', 'meta': None, 'lemma': {'writtenForm': lemma, 'partOfSpeech': pos_of(nodes[0])},
             'senses': [{'id': f'g0-{eid}-s{i}', 'synset': f'g0-n{u}', 'meta': None} for i, u in enumerate(nodes)]}
        if others:
            e['forms'] = [{'writtenForm': f} for f in others]
        lex['entries'].append(e)
    # search model for token -> synsets (the library looks tokens up with its default search)
    words = []
    for e in lex['entries']:
        words.append({'key': e['id'], 'pos': e['lemma']['partOfSpeech'],
                      'forms': [e['lemma']['writtenForm']] + [f['writtenForm'] for f in e.get('forms', [])],
                      'senses': [(s['id'], int(s['synset'].rsplit('-n', 1)[1]), None) for s in e['senses']]})
    sm = ms.SearchModel(words)
    vocab = [f for w_ in words for f in w_['forms']]
    tokens = []
    for _ in range(r.randint(1, 25)):
        x = r.random()
        if x < 0.7:
            tokens.append(r.choice(vocab))
        elif x < 0.8:
            tokens.append(r.choice(vocab).upper())
        else:
            tokens.append(r.choice(['unknown', 'zzz', '', 'w0x99']))
    counts = Counter(tokens)
    word_synsets = {t: sorted(sm.search('synsets', t, None, True, True, None)) for t in counts}
    ambiguous = any(len(v) > 1 for v in word_synsets.values())
    convergent = any(len([p for p in (g.paths(u) or []) if x in p]) > 1 for u in range(n) for x in range(n))
    work = env.mkdtemp('c15')
    try:
        with env.FreshDB():
            wnio.add(wnio.write_resource({'lmf_version': '1.0', 'lexicons': [lex]}, work, random.Random(1), surface='plain'))
            w = wn.Wordnet('g0:1')
            ss = {j: w.synset(f'g0-n{j}') for j in range(n)}
            for distribute in (True, False):
                for smoothing in (1.0, 0.5, 0.001, 0.0):
                    freq = wn.ic.compute(list(tokens), w, distribute_weight=distribute, smoothing=smoothing)
                    rec.call('wn.ic.compute')
                    want = ic_weights(g, pos_of, word_synsets, counts, distribute, smoothing)
                    cfg = f'graph n={n} edges={edges} pos={[pos_of(j) for j in range(n)]} corpus={dict(counts)} distribute={distribute} smoothing={smoothing}'
                    if set(freq) != set(want):
                        rec.violation('ic-structure', f'{cfg}: parts of speech {sorted(freq)}')
                        continue
                    bad = False
                    for p in want:
                        gotp = {(_node(k_) if k_ is not None else None): v for k_, v in freq[p].items()}
                        if set(gotp) != set(want[p]):
                            rec.violation('ic-structure', f'{cfg}: synsets filed under {p!r}: {sorted(map(str, gotp))}, model {sorted(map(str, want[p]))}')
                            bad = True
                            continue
                        for node, wv in want[p].items():
                            rec.event('weights.compared')
                            gv = gotp[node]
                            if abs(gv - float(wv)) > 1e-9 * max(1.0, abs(float(wv))):
                                key = 'ic-total' if node is None else 'ic-weight'
                                if node is not None and gv > float(wv) and _paths_converge(g, node):
                                    key = 'ic-counted-per-path'
                                rec.violation(key, f'{cfg}: freq[{p!r}][{"total" if node is None else "n%d" % node}] = {gv}, model {float(wv)}')
                                bad = True
                                break
                    if bad:
                        continue
                    # monotone upwards, probability and information content
                    for j in range(n):
                        p = 'a' if pos_of(j) == 's' else pos_of(j)
                        if p not in want:
                            rec.event('other-pos.synsets')
                            continue
                        for h in ss[j].hypernyms():
                            rec.event('monotone.checked')
                            if freq[p][h.id] < freq[p][ss[j].id] - 1e-12:
                                rec.violation('ic-not-monotone', f'{cfg}: weight of hypernym {h.id} < weight of {ss[j].id}')
                        if smoothing > 0:
                            try:
                                pr = wn.ic.synset_probability(ss[j], freq)
                                icv = wn.ic.information_content(ss[j], freq)
                            except KeyError as exc:
                                key = 'ic-satellite-keyerror' if pos_of(j) == 's' else 'ic-lookup-error'
                                rec.violation(key, f'{cfg}: synset_probability/information_content({ss[j].id}, pos {pos_of(j)}) raised KeyError {exc}')
                                continue
                            rec.call('wn.ic.information_content')
                            wantp = float(want[p][j] / want[p][None])
                            if not (0 < pr <= 1 + 1e-12) or abs(pr - wantp) > 1e-9:
                                rec.violation('ic-probability', f'{cfg}: probability of n{j} = {pr}, model {wantp}')
                            if icv < -1e-12 or abs(icv - (-math.log(wantp))) > 1e-9:
                                rec.violation('ic-information-content', f'{cfg}: information content of n{j} = {icv}, model {-math.log(wantp)}')
                    rec.done([case['seed'], distribute, smoothing], nontrivial=convergent or ambiguous or not g.acyclic(),
                             sample={'nodes': n, 'edges': edges, 'corpus': dict(counts), 'distribute_weight': distribute,
                                     'smoothing': smoothing})
            # documented defaults: distribute_weight=True, smoothing=1.0
            rec.event('default.checked')
            if wn.ic.compute(list(tokens), w) != wn.ic.compute(list(tokens), w, distribute_weight=True, smoothing=1.0):
                rec.violation('ic-defaults', f'graph n={n} edges={edges} corpus={dict(counts)}: compute() without options differs from '
                              'distribute_weight=True, smoothing=1.0')
            if convergent:
                rec.event('convergent.cases')
        check_load(rec, r, work)
    finally:
        env.rmtree(work)


def _node(ssid):
    return int(ssid.rsplit('-n', 1)[1])


def _paths_converge(g, node):
    return any(len([p for p in (g.paths(u) or []) if node in p]) > 1 for u in range(g.n))


def check_load(rec, r, work):
    """wn.ic.load(): WordNet::Similarity style file -> same key structure as compute(), ROOT lines summed under None"""
    import wn
    import wn.ic
    n = r.randint(2, 6)
    pos = [r.choice('nv') for _ in range(n)]
    synsets = [{'id': f'icl-{j + 1:08}-{pos[j]}', 'ili': '', 'partOfSpeech': pos[j], 'meta': None} for j in range(n)]
    lex = {'id': 'icl', 'label': 'x', 'language': 'en', 'email': 'e', 'license': 'l', 'version': '1', 'meta': None, 'synsets': synsets}
    with env.FreshDB():
        wnio.add(wnio.write_resource({'lmf_version': '1.0', 'lexicons': [lex]}, work, random.Random(2), name='icl.xml', surface='plain'))
        w = wn.Wordnet('icl:1')
        lines = ['wnver::abc']
        want = {p: {None: 0.0} for p in 'nvar'}
        for j in range(n):
            want[pos[j]][synsets[j]['id']] = 0.0
        for j in r.sample(range(n), r.randint(1, n)):
            val = r.choice([1.0, 2.5, 1915712.0, 0.25, 8.5e-06, 1.2e+16, 3.0e-5])
            root = r.random() < 0.4
            text = r.choice(['%s' % val, '%.15g' % val, '%r' % val])      # WordNet::Similarity writes %.15g (exponents for tiny/huge values)
            lines.append(f'{j + 1}{pos[j]} {text}' + (' ROOT' if root else ''))
            want[pos[j]][synsets[j]['id']] = val
            if root:
                want[pos[j]][None] += val
        p = work / 'ic.dat'
        p.write_text('\n'.join(lines) + '\n')
        got = wn.ic.load(p, w)
        rec.call('wn.ic.load')
        rec.event('load.compared')
        if got != want:
            rec.violation('ic-load', f'load() of {lines} = {got}, expected {want}')
        # the documented hook for other identifier schemes: called with offset= and pos=, result used as the synset id
        calls = []

        def my_id(offset, pos):
            calls.append((offset, pos))
            return f'icl-{offset:08}-{pos}'
        got2 = wn.ic.load(p, w, get_synset_id=my_id)
        if got2 != want or not calls:
            rec.violation('ic-load', f'load(get_synset_id=...) of {lines} = {got2}, expected {want} ({len(calls)} calls of the hook)')
