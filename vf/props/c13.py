"""C13 - taxonomy functions agree with graph-theoretic definitions on any hypernym graph.

Graphs: every labelled digraph on <= 3 nodes (self-loops included), every digraph on 4 nodes up to isomorphism
(quick: the 218 loop-free ones; thorough: all 3044), random graphs of 5-12 nodes (forests, stacked diamonds, several
roots, DAGs, planted cycles and self-loops).  Many graphs are packed into one database, one lexicon per graph.
For every node, ordered pair and simulate_root value the real wn.taxonomy functions (and the Synset shortcuts) are
compared with vf.model.taxo (BFS/DFS over the edge list).  A step monitor bounds the number of get_related()
expansions per top-level call (termination as bounded progress).
"""

import random

from vf import env, wnio
from vf.gen import graphs
from vf.model.taxo import G, ROOT, valid_path

ID = 'C13'
RULE = ('one evaluation = one graph (all its nodes, all ordered pairs, simulate_root in {False, True}); distinct = edge list + part-of-speech '
        'labelling; non-trivial = the graph has at least one edge')
ASSUMPTIONS = ['with simulate_root the virtual root sits above the end of every maximal simple chain (what "joins all roots" means on a DAG)',
               'lowest_common_hypernyms is compared exactly on DAGs; on graphs with a directed cycle only reading-independent consequences '
               '(subset of the common hypernyms, empty iff that set is empty)']
FLOORS = {'*': {'graph.checked': 300, 'pair.checked': 3000, 'cyclic.graphs': 50, 'dag.graphs': 50}}
CHUNK = 48
STEP_CAP = 20000


def exhaustive(tier):
    return True


def plan(tier, seed):
    cases = []
    total = 2 + 16 + 512
    for start in range(0, total, CHUNK):
        cases.append({'kind': 'labelled<=3', 'start': start, 'count': CHUNK, 'posmode': (start // CHUNK) % 3, 'seed': seed})
    n4 = 218 if tier == 'quick' else 3044
    for start in range(0, n4, CHUNK):
        cases.append({'kind': 'iso4' if tier == 'thorough' else 'iso4-loopfree', 'start': start, 'count': CHUNK,
                      'posmode': (start // CHUNK) % 3, 'seed': seed})
    nr = 96 if tier == 'quick' else 3000
    for start in range(0, nr, 24):
        cases.append({'kind': 'random', 'start': start, 'count': 24, 'posmode': (start // 24) % 3, 'seed': seed})
    cases.append({'kind': 'pytest-under-contracts'})
    for i in range(4 if tier == 'quick' else 40):
        cases.append({'kind': 'long-lived', 'seed': seed * 1000003 + i})
    return cases


def graphs_of(case):
    kind = case['kind']
    if kind == 'labelled<=3':
        allg = list(graphs.all_labelled(1)) + list(graphs.all_labelled(2)) + list(graphs.all_labelled(3))
    elif kind == 'iso4':
        allg = graphs.up_to_isomorphism(4, loops=True)
    elif kind == 'iso4-loopfree':
        allg = graphs.up_to_isomorphism(4, loops=False)
    else:
        out = []
        for i in range(case['start'], case['start'] + case['count']):
            r = random.Random(case['seed'] * 7919 + i)
            out.append(graphs.random_graph(r))
        return out
    return allg[case['start']:case['start'] + case['count']]


def pos_fn(mode):
    if mode == 0:
        return lambda j: 'n'
    if mode == 1:
        return lambda j: 'v'
    return lambda j: 'a' if j % 2 == 0 else 's'


class StepBudget(Exception):
    pass


class Steps:
    def __init__(self):
        import wn
        self.n = 0
        self.cap = STEP_CAP
        self.orig = wn.Synset.get_related
        mon = self

        def get_related(self_, *a):
            mon.n += 1
            if mon.n > mon.cap:
                raise StepBudget(f'more than {mon.cap} get_related() expansions in one call')
            return mon.orig(self_, *a)
        wn.Synset.get_related = get_related

    def restore(self):
        import wn
        wn.Synset.get_related = self.orig


def key_of(lid, ss):
    if ss.id == ROOT:
        return ROOT
    if ss.id == '*INFERRED*':
        return int(ss.ili.id.rsplit('x', 1)[1])       # placeholder of a concept the local lexicon lacks: identified by its ILI
    return int(ss.id.rsplit('-n', 1)[1])


def run_case(case, rec):
    if case.get('kind') == 'pytest-under-contracts':
        from vf import contracts_case
        return contracts_case.run(rec, ID)
    import wn
    from wn import taxonomy
    if case.get('kind') == 'long-lived':
        return long_lived(case, rec)
    gs = graphs_of(case)
    if not gs:
        return
    pos_of = pos_fn(case['posmode'])
    r = random.Random(case['start'])
    work = env.mkdtemp('c13')
    steps = Steps()
    try:
        with env.FreshDB():
            lexs = [graphs.lexicon_for(i, g, pos_of, r, words=False) for i, g in enumerate(gs)]
            # some of the random graphs are also looked at through an expand lexicon: a local lexicon that has only some of
            # the concepts (and no relations of its own) borrows the hypernymy of the graph lexicon by ILI; the concepts it
            # lacks appear as placeholder synsets
            expanded = {}
            for i, (n, edges) in enumerate(gs):
                if case['kind'] == 'random' and n >= 3 and i % 2 == 0:
                    for ss_ in lexs[i]['synsets']:
                        ss_['ili'] = f"i{i}x{ss_['id'].rsplit('-n', 1)[1]}"
                    expanded[i] = set(r.sample(range(n), r.randint(2, n - 1)))
            for chunk in range(0, len(lexs), 16):
                res = {'lmf_version': '1.0', 'lexicons': lexs[chunk:chunk + 16]}
                wnio.add(wnio.write_resource(res, work, random.Random(1), name=f'g{chunk}.xml', surface='plain'))
            if expanded:
                locs = [{'id': f'q{i}', 'label': 'local', 'language': 'xx', 'email': 'e', 'license': 'l', 'version': '1', 'meta': None,
                         'synsets': [{'id': f'q{i}-n{j}', 'ili': f'i{i}x{j}', 'partOfSpeech': pos_of(j), 'meta': None} for j in sorted(present)]}
                        for i, present in expanded.items()]
                wnio.add(wnio.write_resource({'lmf_version': '1.0', 'lexicons': locs}, work, random.Random(2), name='local.xml', surface='plain'))
            for i, (n, edges) in enumerate(gs):
                check_graph(rec, steps, wn.Wordnet(f'g{i}:1'), f'g{i}', G(n, edges), pos_of, taxonomy, edges)
                if i in expanded:
                    rec.event('graph.through-expand')
                    check_graph(rec, steps, wn.Wordnet(f'q{i}:1', expand=f'g{i}:1'), f'q{i}', G(n, edges), pos_of, taxonomy, edges,
                                present=expanded[i])
                rec.done([case['kind'], n, edges, case['posmode']], nontrivial=bool(edges),
                         sample={'nodes': n, 'edges': edges, 'pos': [pos_of(j) for j in range(n)]})
        rec.add_extra('exhaustive_scope', 'exhaustive: true refers to the enumerated finite spaces only - every labelled digraph on 1, 2 and 3 nodes '
                      '(2 + 16 + 512, self-loops included) and, per tier, every isomorphism class of 4-node digraphs without (quick: 218) or '
                      'with (thorough: 3044) self-loops; each with all nodes, all ordered pairs and both simulate_root values; the random '
                      'larger graphs are a sample')
    finally:
        steps.restore()
        env.rmtree(work)


def long_lived(case, rec):
    """One Wordnet object kept across changes of the database: what it answers must follow the content (the same questions
    are put to a Wordnet created afterwards; both must agree and match the model).  A chain lexicon, then an extension that
    puts new synsets above its top, then the extension removed again."""
    import wn
    from wn import taxonomy
    r = random.Random(case['seed'])
    n = r.randint(2, 4)
    k = r.randint(1, 3)
    pos = r.choice('nv')
    base = graphs.lexicon_for(0, (n, [(j, j + 1) for j in range(n - 1)]), lambda j: pos, None, words=False)
    base['id'] = 'll'
    for ss_ in base['synsets']:
        ss_['id'] = ss_['id'].replace('g0-', 'll-')
        for rel in ss_.get('relations', []):
            rel['target'] = rel['target'].replace('g0-', 'll-')
    ext_syn = [{'id': f'lx-n{j}', 'ili': '', 'partOfSpeech': pos, 'meta': None,
                'relations': ([{'target': f'lx-n{j + 1}', 'relType': 'hypernym', 'meta': None}] if j + 1 < k else [])} for j in range(k)]
    ext = {'id': 'lx', 'label': 'above', 'language': 'en', 'email': 'e', 'license': 'l', 'version': '1', 'meta': None,
           'extends': {'id': 'll', 'version': '1'},
           'synsets': [{'id': f'll-n{n - 1}', 'external': True,
                        'relations': [{'target': 'lx-n0', 'relType': 'hypernym', 'meta': None}]}] + ext_syn}
    work = env.mkdtemp('c13ll')
    try:
        with env.FreshDB():
            wnio.add(wnio.write_resource({'lmf_version': '1.1', 'lexicons': [base]}, work, random.Random(1), name='ll.xml', surface='plain'))
            w_old = wn.Wordnet()                          # default mode: its lexicon set is not frozen
            pe = wnio.write_resource({'lmf_version': '1.1', 'lexicons': [ext]}, work, random.Random(2), name='lx.xml', surface='plain')
            for stage, depth in (('base only', n - 1), ('extension added', n - 1 + k), ('extension removed', n - 1), ('extension added again', n - 1 + k)):
                if stage.startswith('extension added'):
                    wnio.add(pe)
                elif stage == 'extension removed':
                    wn.remove('lx:1', progress_handler=None)
                w_new = wn.Wordnet()
                bottom_old, bottom_new = w_old.synset('ll-n0'), w_new.synset('ll-n0')
                for label, w_, b_ in (('kept since before the change', w_old, bottom_old), ('created afterwards', w_new, bottom_new)):
                    rec.event('long-lived.compared')
                    # (what a kept Wordnet *enumerates* stays with the lexicons it was created for - its lexicon set is computed
                    # once, by design - so roots() is only asked of the new one; everything below is reached by navigation)
                    got = (taxonomy.taxonomy_depth(w_, pos), b_.max_depth(), b_.min_depth(), len(b_.hypernym_paths()[0]) if b_.hypernym_paths() else 0,
                           len(taxonomy.roots(w_, pos)) if w_ is w_new else 1, len(list(b_.closure('hypernym'))))
                    want = (depth, depth, depth, depth, 1, depth)
                    if got != want:
                        rec.violation('long-lived-wordnet', f'chain of {n} synsets, extension with {k} more above, stage "{stage}", Wordnet {label}: '
                                      f'(taxonomy_depth, max_depth, min_depth, path length, roots, closure size) = {got}, expected {want}')
    finally:
        env.rmtree(work)
    rec.done(['long-lived', case['seed']], nontrivial=True, sample={'chain': n, 'extension_adds': k})


def check_graph(rec, steps, w, lid, g, pos_of, taxonomy, edges, present=None):
    import wn
    n = g.n
    rec.event('graph.checked')
    dag = g.acyclic()
    rec.event('dag.graphs' if dag else 'cyclic.graphs')
    what = f'graph n={n} edges={edges}'
    full = present is None
    allnodes = list(range(n)) if full else sorted(present)
    ss = {j: w.synset(f'{lid}-n{j}') for j in allnodes}
    if not full:
        what += f' seen through an expand lexicon, local synsets {allnodes}'
    if any(g.paths(j) is None for j in range(n)):
        rec.event('graph.skipped-too-many-paths')
        return

    def call(name, f, *a, **kw):
        steps.n = 0
        rec.call(name)
        try:
            return f(*a, **kw)
        except StepBudget as exc:
            rec.violation('step-budget', f'{what}: {name}: {exc}')
            raise

    try:
        for j in allnodes:
            for sr in (False, True):
                want = sorted(_norm(g.paths_sr(j, sr)))
                got = sorted(_norm([key_of(lid, x) for x in p] for p in call('hypernym_paths', taxonomy.hypernym_paths, ss[j], simulate_root=sr)))
                if got != want:
                    rec.violation('hypernym_paths', f'{what}: hypernym_paths(n{j}, simulate_root={sr}) = {got}, maximal simple chains {want}')
                if sorted(_norm([key_of(lid, x) for x in p] for p in ss[j].hypernym_paths(simulate_root=sr))) != got:
                    rec.violation('shortcut-differs', f'{what}: Synset.hypernym_paths differs from wn.taxonomy.hypernym_paths')
                for name, f, mf in (('min_depth', taxonomy.min_depth, g.depth_min), ('max_depth', taxonomy.max_depth, g.depth_max)):
                    v = call(name, f, ss[j], simulate_root=sr)
                    if v != mf(j, sr):
                        rec.violation(name, f'{what}: {name}(n{j}, simulate_root={sr}) = {v}, model {mf(j, sr)}')
                    if getattr(ss[j], name)(simulate_root=sr) != v:
                        rec.violation('shortcut-differs', f'{what}: Synset.{name} differs from wn.taxonomy.{name}')
        # roots / leaves / taxonomy depth per part of speech
        poses = sorted({pos_of(j) for j in range(n)})
        for pos in ([None] + poses if full else []):
            nodes = [j for j in range(n) if pos is None or pos_of(j) == pos or {pos, pos_of(j)} == {'a', 's'}]
            got = sorted(key_of(lid, x) for x in call('roots', taxonomy.roots, w, pos=pos))
            if got != sorted(g.roots(nodes)):
                rec.violation('roots', f'{what}: roots(pos={pos}) = {got}, model {sorted(g.roots(nodes))}')
            got = sorted(key_of(lid, x) for x in call('leaves', taxonomy.leaves, w, pos=pos))
            if got != sorted(g.leaves(nodes)):
                rec.violation('leaves', f'{what}: leaves(pos={pos}) = {got}, model {sorted(g.leaves(nodes))}')
            if pos is not None:
                v = call('taxonomy_depth', taxonomy.taxonomy_depth, w, pos)
                want = max((g.depth_max(j) for j in nodes), default=0)
                if v != want:
                    key = 'taxonomy-depth-cyclic' if (not dag and v == _depth_with_seen_shortcut(g, nodes, pos, pos_of)) else 'taxonomy_depth'
                    rec.violation(key, f'{what}: taxonomy_depth({pos}) = {v}, longest chain {want}')
        # pairs
        for a in allnodes:
            for b in allnodes:
                if not _compatible(pos_of(a), pos_of(b)):
                    continue
                rec.event('pair.checked')
                for sr in (False, True):
                    want_c = g.common(a, b, sr)
                    got_c = {key_of(lid, x) for x in call('common_hypernyms', taxonomy.common_hypernyms, ss[a], ss[b], simulate_root=sr)}
                    if got_c != want_c:
                        rec.violation('common_hypernyms', f'{what}: common_hypernyms(n{a}, n{b}, simulate_root={sr}) = {_s(got_c)}, '
                                      f'intersection of the ancestor sets {_s(want_c)}')
                    got_l = [key_of(lid, x) for x in call('lowest_common_hypernyms', taxonomy.lowest_common_hypernyms, ss[a], ss[b], simulate_root=sr)]
                    if len(set(got_l)) != len(got_l):
                        rec.violation('lowest_common_hypernyms', f'{what}: duplicates in lowest_common_hypernyms(n{a}, n{b}): {got_l}')
                    if dag:
                        want_l = g.lowest_common(a, b, sr)
                        if set(got_l) != want_l:
                            rec.violation('lowest_common_hypernyms', f'{what}: lowest_common_hypernyms(n{a}, n{b}, simulate_root={sr}) = '
                                          f'{_s(set(got_l))}, common hypernyms of greatest depth {_s(want_l)}')
                    else:
                        if not set(got_l) <= want_c or bool(got_l) != bool(want_c):
                            rec.violation('lowest_common_hypernyms', f'{what}: lowest_common_hypernyms(n{a}, n{b}, simulate_root={sr}) = '
                                          f'{got_l} is not a non-empty subset of the common hypernyms {_s(want_c)}')
                    want_len = g.shortest_len(a, b, sr)
                    try:
                        path = call('shortest_path', taxonomy.shortest_path, ss[a], ss[b], simulate_root=sr)
                        got_p = [key_of(lid, x) for x in path]
                    except wn.Error:
                        got_p = None
                    if want_len is None:
                        if got_p is not None:
                            rec.violation('shortest_path', f'{what}: shortest_path(n{a}, n{b}, simulate_root={sr}) = {got_p} although nothing is shared')
                        continue
                    if got_p is None:
                        rec.violation('shortest_path', f'{what}: shortest_path(n{a}, n{b}, simulate_root={sr}) raised although the synsets are connected '
                                      f'(expected length {want_len})')
                        continue
                    if len(got_p) != want_len:
                        rec.violation('shortest_path', f'{what}: shortest_path(n{a}, n{b}, simulate_root={sr}) = {got_p}, minimum length is {want_len}')
                    elif not valid_path(g, a, b, got_p):
                        rec.violation('shortest_path', f'{what}: shortest_path(n{a}, n{b}, simulate_root={sr}) = {got_p} is not a path from n{a} to n{b}')
                    back = ss[b].shortest_path(ss[a], simulate_root=sr)
                    if len(back) != len(got_p):
                        rec.violation('shortest_path-asymmetric', f'{what}: |shortest_path(n{a},n{b})| = {len(got_p)} but |shortest_path(n{b},n{a})| = {len(back)}')
        # documented defaults: leaving simulate_root out means simulate_root=False, for the functions and the shortcuts
        def outcome(f, *a, **kw):
            steps.n = 0
            try:
                v = f(*a, **kw)
            except wn.Error:
                return 'wn.Error'
            if isinstance(v, list):
                return [[key_of(lid, y) for y in x] if isinstance(x, list) else key_of(lid, x) for x in v]
            return v

        for j in allnodes:
            for name in ('hypernym_paths', 'min_depth', 'max_depth'):
                for f, args in ((getattr(taxonomy, name), (ss[j],)), (getattr(ss[j], name), ())):
                    rec.event('default.checked')
                    if outcome(f, *args) != outcome(f, *args, simulate_root=False):
                        rec.violation('default-simulate_root', f'{what}: {name}(n{j}) without simulate_root differs from simulate_root=False')
        for a in allnodes:
            for b in allnodes:
                if not _compatible(pos_of(a), pos_of(b)):
                    continue
                for name in ('common_hypernyms', 'lowest_common_hypernyms', 'shortest_path'):
                    for f, args in ((getattr(taxonomy, name), (ss[a], ss[b])), (getattr(ss[a], name), (ss[b],))):
                        rec.event('default.checked')
                        if outcome(f, *args) != outcome(f, *args, simulate_root=False):
                            rec.violation('default-simulate_root', f'{what}: {name}(n{a}, n{b}) without simulate_root differs from simulate_root=False')
        rec.event('steps.max', 0)
    except StepBudget:
        return


def _compatible(p, q):
    return (p in 'as' and q in 'as') or p == q


def _norm(paths):
    return [[str(x) for x in p] for p in paths]


def _s(xs):
    return sorted(map(str, xs))


def _depth_with_seen_shortcut(g, nodes, pos, pos_of):
    """the known mechanism, as a counterfactual model: synsets are visited in stored order (the requested part of
    speech first, then its a/s partner) and one whose hypernyms were all seen on earlier chains is skipped"""
    order = [j for j in nodes if pos_of(j) == pos] + [j for j in nodes if pos_of(j) != pos]
    seen, depth = set(), 0
    for j in order:
        if all(h in seen for h in g.up[j]):
            continue
        paths = g.paths(j)
        if paths:
            depth = max(depth, max(len(p) for p in paths))
            seen.update(x for p in paths for x in p)
    return depth
