"""C08 - lexicon specifiers and language codes select exactly the documented lexicons.

Databases with 3-8 lexicons (several versions per id added in random order, ids that are prefixes of other ids, versions
with dots/plus/hyphen, two languages).  Every specifier string of up to 3 items built from the installed ids/versions,
'*' and star globs, with and without lang, is given to wn.lexicons(), wn.Wordnet() and (on a copy) wn.remove(); the selected
set is compared with the model written from docs/guides/lexicons.rst.
"""

import itertools
import random
import shutil

from vf import env, wnio
from vf.gen import doc
from vf.model import spec as mspec

RULE = ('one evaluation = one (database, specifier string, lang) triple; databases are generated (ids a/ab/a-b/b/abc, versions '
        '1/1.0/2/1.0+x/1-beta, random insertion order); distinct = triple; non-trivial = the specifier selects a non-empty proper '
        'subset of the installed lexicons or is expected to select nothing')
ASSUMPTIONS = ["'?' and '[...]' glob syntax is not documented and not generated; globs always contain a colon",
               'the result of a list specifier is compared as a set (the union)']
FLOORS = {'*': {'spec.compared': 2000, 'remove.compared': 100}}
N = {'quick': 24, 'thorough': 800}
IDS = ['a', 'ab', 'a-b', 'b', 'abc', 'a_b', 'A', 'aXb', 'a%']
VERS = ['1', '1.0', '2', '1.0+x', '1-beta', '1_0', '1%', '1x0']


def plan(tier, seed):
    return [{'seed': seed * 1000003 + i, 'tier': tier} for i in range(N[tier])]


def quirk_select(installed, spec, lang):
    """the pinned tree's behaviour (known finding): a bare id yields the first added version, and one star
    anywhere in the whole string removes the limit from every bare id"""
    out = []
    for item in spec.split():
        if ':' in item or '*' in item:
            hits = mspec.select(installed, item, lang)
        else:
            hits = [s for s, lg in installed if s.split(':', 1)[0] == item and (lang is None or lg == lang)]
            if '*' not in spec:
                hits = hits[:1]
        for h in hits:
            if h not in out:
                out.append(h)
    return out


def run_case(case, rec):
    import wn
    r = random.Random(case['seed'])
    n = r.randint(3, 8)
    pairs = set()
    while len(pairs) < n:
        pairs.add((r.choice(IDS[:3] if r.random() < 0.4 else IDS), r.choice(VERS[:5] if r.random() < 0.6 else VERS)))
    pairs = list(pairs)
    r.shuffle(pairs)
    prof = doc.Profile(max_entries=1, max_synsets=1, hostile=0, relations=False)
    work = env.mkdtemp('c08')
    try:
        with env.FreshDB() as fdb:
            installed = []
            for i, (lid, ver) in enumerate(pairs):
                lang = r.choice(['en', 'en', 'fr'])
                lx = doc.gen_lexicon(r, '1.0', lid, ver, prof, language=lang, idprefix=f'{lid}-{i}-')
                wnio.add(wnio.write_resource({'lmf_version': '1.0', 'lexicons': [lx]}, work, random.Random(i), name=f'l{i}.xml'))
                installed.append((f'{lid}:{ver}', lang))
            ids = sorted({p[0] for p in pairs})
            vers = sorted({p[1] for p in pairs})
            items = set(ids) | {f'{i}:{v}' for i, v in pairs} | {f'{i}:*' for i in ids} | {f'*:{v}' for v in vers}
            items |= {'*', 'a*:*', '*:1*', 'a*:1*', '*b:*', 'a:1*', '*:*', 'zz', 'zz:1', 'a:9', '*:9', 'ab:*x', 'A', 'a', 'A:*', 'AB', 'a_b', 'a_b:*',
                      'a%', 'a%:*', '*:1_0', '*:1%', 'a_b:1_0', 'B:1'}
            items |= {f'{r.choice(ids)}:{r.choice(VERS)}' for _ in range(3)}
            items = sorted(items)
            specs = list(items)
            lim2, lim3 = (60, 40) if case['tier'] == 'quick' else (250, 150)
            specs += [' '.join(p) for p in r.sample(list(itertools.permutations(items, 2)), min(lim2, len(items) * (len(items) - 1)))]
            specs += [' '.join(r.sample(items, 3)) for _ in range(lim3)]
            for s in specs:
                for lang in (None, 'en', 'fr', 'xx') if len(s.split()) == 1 else (None, r.choice(['en', 'fr'])):
                    want = mspec.select(installed, s, lang)
                    rec.event('spec.compared')
                    rec.event('spec.items.%d' % len(s.split()))
                    got = [lx.specifier() for lx in wn.lexicons(lexicon=s, lang=lang)]
                    rec.call('wn.lexicons')
                    try:
                        got_w = [lx.specifier() for lx in wn.Wordnet(s, lang=lang).lexicons()]
                        raised = False
                    except wn.Error:
                        got_w, raised = [], True
                    rec.call('wn.Wordnet')
                    nontrivial = (0 < len(want) < len(installed)) or not want
                    for api, g in (('wn.lexicons', got), ('wn.Wordnet', got_w)):
                        if set(g) != set(want):
                            key = 'bare-id-selection' if set(g) == set(quirk_select(installed, s, lang)) else 'specifier-selection'
                            rec.violation(key, f'{api}(lexicon={s!r}, lang={lang!r}) selects {sorted(set(g))}, documented {sorted(want)} '
                                          f'(installed in this order: {installed})')
                    if raised != (not want) and set(got) == set(want):
                        rec.violation('no-match-error', f'Wordnet({s!r}, lang={lang!r}): raised={raised} although the selection is {want}')
                    rec.done([case['seed'], s, lang], nontrivial=nontrivial,
                             sample={'installed': installed, 'specifier': s, 'lang': lang, 'selected': want})
            # the command line front end resolves specifiers the same way (python -m wn lexicons)
            import subprocess
            import sys
            for s_ in r.sample(specs, 3):
                lang = r.choice([None, 'en', 'fr'])
                cmd = [sys.executable, '-m', 'wn', '-d', str(fdb.dir), 'lexicons', '--lexicon', s_] + (['--lang', lang] if lang else [])
                pr = subprocess.run(cmd, capture_output=True, text=True, timeout=120)
                got = {':'.join(line.split('\t')[:2]) for line in pr.stdout.splitlines() if '\t' in line}
                want = set(mspec.select(installed, s_, lang))
                rec.event('cli.compared')
                rec.call('python -m wn lexicons')
                if pr.returncode != 0 or got != want:
                    rec.violation('cli-lexicons', f'python -m wn lexicons --lexicon {s_!r} --lang {lang!r} lists {sorted(got)} (rc {pr.returncode}), '
                                  f'documented {sorted(want)} (installed {installed}); stderr {pr.stderr[-200:]}')
            # resolve, add another version of an id, resolve again (same process): a bare id must follow the newest one
            for step in range(2):
                lid = r.choice(ids)
                ver = f'9.{step}'
                lang = r.choice(['en', 'fr'])
                lx = doc.gen_lexicon(r, '1.0', lid, ver, prof, language=lang, idprefix=f'{lid}-n{step}-')
                wnio.add(wnio.write_resource({'lmf_version': '1.0', 'lexicons': [lx]}, work, random.Random(step), name=f'late{step}.xml'))
                installed.append((f'{lid}:{ver}', lang))
                for s in [lid, f'{lid} zz', f'{lid}:*', f'{lid}:{ver}', '*']:
                    for lng in (None, lang):
                        want = mspec.select(installed, s, lng)
                        got = [x.specifier() for x in wn.lexicons(lexicon=s, lang=lng)]
                        rec.event('spec.compared')
                        rec.event('spec.after-late-add')
                        if set(got) != set(want):
                            rec.violation('specifier-after-add', f'after adding {lid}:{ver}: wn.lexicons(lexicon={s!r}, lang={lng!r}) selects {sorted(set(got))}, '
                                          f'documented {sorted(want)} (installed in this order: {installed})')
            specs = [s_ for s_ in specs]
            # the same specifiers through wn.remove, each on a copy of the database
            env.close_pool()
            for s in r.sample(specs, 12 if case['tier'] == 'quick' else 40):
                cp = work / 'copy'
                shutil.rmtree(cp, ignore_errors=True)
                shutil.copytree(fdb.dir, cp)
                env.use_db_dir(cp)
                want = mspec.select(installed, s, None)
                try:
                    wn.remove(s, progress_handler=None)
                    raised = False
                except wn.Error:
                    raised = True
                rec.call('wn.remove')
                rec.event('remove.compared')
                left = {lx.specifier() for lx in wn.lexicons()}
                removed = {sp for sp, _ in installed} - left
                # a list is processed item by item: a later bare id may be resolved after the earlier items were
                # already removed - both readings (snapshot / sequential) are accepted
                cur, seq = list(installed), set()
                for item in s.split():
                    hit = mspec.select(cur, item, None)
                    seq |= set(hit)
                    cur = [x for x in cur if x[0] not in hit]
                if removed == seq:
                    want = sorted(seq)
                if removed != set(want):
                    key = 'bare-id-selection' if removed == set(quirk_select(installed, s, None)) else 'specifier-selection'
                    rec.violation(key, f'wn.remove({s!r}) removed {sorted(removed)}, documented selection {sorted(want)} (installed {installed})')
                elif raised != (not want):
                    rec.violation('no-match-error', f'wn.remove({s!r}): raised={raised}, selection {want}')
            env.use_db_dir(fdb.dir)
            rec.state(sorted(installed))
    finally:
        env.rmtree(work)
