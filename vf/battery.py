"""C16 battery: run every public query / taxonomy / similarity / IC / validate / dump / export call on a given database
directory and write a canonical transcript (one line per call).  Executed in subprocesses with different
PYTHONHASHSEED values; the transcripts must be byte-identical.  Also run twice in this process (repetition) with the
SQL trace on: read-only calls must issue no write statement.

    python -m vf.battery <data dir> <out file> <resource xml for load/dump>
"""

import hashlib
import json
import sys
import warnings

from vf import env


def canon(x):
    import wn
    if isinstance(x, (wn.Word, wn.Sense, wn.Synset)):
        if isinstance(x, wn.Synset) and x.id in ('*INFERRED*', '*ROOT*'):
            i = x.ili
            return f'<{x.id}:{i.id if i is not None else None}>'
        return f'<{type(x).__name__}:{x.lexicon().specifier()}:{x.id}>'
    if isinstance(x, wn.Lexicon):
        return f'<Lexicon:{x.specifier()}>'
    if isinstance(x, wn.Relation):
        return f'<Relation:{x.name}:{x.source_id}:{x.target_id}:{x._lexicon}:{x.subtype}>'
    if isinstance(x, wn.ILI):
        return f'<ILI:{x.id}:{x.status}>'
    if isinstance(x, wn.Form):
        return f'<Form:{str(x)!r}:{x.id}:{x.script}>'
    if isinstance(x, dict):
        return '{' + ', '.join(f'{canon(k)}: {canon(v)}' for k, v in x.items()) + '}'      # insertion order matters
    if isinstance(x, (list, tuple)):
        return '[' + ', '.join(canon(v) for v in x) + ']'
    if isinstance(x, (set, frozenset)):
        return 'set(' + ', '.join(sorted(canon(v) for v in x)) + ')'                       # a set has no order
    if isinstance(x, float):
        return repr(x)
    return repr(x)


class Transcript:
    def __init__(self):
        self.lines = []
        self.calls = {}

    def add(self, name, value):
        self.calls[name.split('(')[0]] = self.calls.get(name.split('(')[0], 0) + 1
        self.lines.append(f'{name} -> {canon(value)}')

    def attempt(self, name, f, *a, **kw):
        import wn
        try:
            self.add(name, f(*a, **kw))
        except wn.Error as exc:
            self.add(name, f'wn.Error({exc})')
        except KeyError as exc:
            self.add(name, f'KeyError({exc})')
        except (TypeError, ValueError, AttributeError, LookupError) as exc:
            # an exception is an outcome like any other here: C16 asks whether outcomes are reproducible, not whether
            # the call should have succeeded (that is for the property owning the call)
            self.add(name, f'{type(exc).__name__}({exc})')


def battery(t, data_dir, resource_xml, scratch, reverse=False):
    import wn
    import wn.ic
    from wn import taxonomy, similarity, lmf
    from wn.validate import validate
    from wn.morphy import Morphy
    t.add('lexicons', wn.lexicons())
    for lx in wn.lexicons():
        t.add(f'{canon(lx)} links', (lx.requires(), lx.extends(), lx.extensions(depth=-1), lx.metadata(), lx.modified()))
        t.attempt(f'{canon(lx)} describe', lx.describe)
    t.add('ilis', wn.ilis())
    for st in ('presupposed', 'proposed', 'active'):
        t.add(f'ilis({st})', wn.ilis(status=st))
    # ---- the same synsets under Wordnets that differ in their expand lexicons (what they inherit differs);
    # done first, before anything else has looked at these synsets
    if any(lx.id == 'g9' for lx in wn.lexicons()):
        settings = [('none', ''), ('default', None), ('explicit', 'g8:1')]
        for label, exp in (reversed(settings) if reverse else settings):
            with warnings.catch_warnings():
                warnings.simplefilter('ignore')
                we = wn.Wordnet('g9:1') if exp is None else wn.Wordnet('g9:1', expand=exp)
            corpus = [str(x.lemma()) for x in we.words()]
            t.add(f'expand={label} ic.compute', wn.ic.compute(corpus, we))
            for x in we.synsets():
                t.add(f'expand={label} {canon(x)}.hypernyms', x.hypernyms())
                t.add(f'expand={label} {canon(x)}.hypernym_paths', x.hypernym_paths())
            # taxonomy over placeholder synsets (g7 lacks two of the provider's concepts)
            if exp == '':
                continue
            with warnings.catch_warnings():
                warnings.simplefilter('ignore')
                wp = wn.Wordnet('g7:1') if exp is None else wn.Wordnet('g7:1', expand=exp)
            for a in wp.synsets():
                t.add(f'expand={label} {canon(a)}.hypernym_paths (placeholders)', a.hypernym_paths())
                for b in wp.synsets():
                    for sr in (False, True):
                        t.attempt(f'expand={label} common_hypernyms({canon(a)},{canon(b)},{sr})', a.common_hypernyms, b, simulate_root=sr)
                        t.attempt(f'expand={label} lowest_common_hypernyms({canon(a)},{canon(b)},{sr})', a.lowest_common_hypernyms, b, simulate_root=sr)
                        t.attempt(f'expand={label} shortest_path({canon(a)},{canon(b)},{sr})', a.shortest_path, b, simulate_root=sr)
    selections = [None] + [[lx.specifier()] for lx in wn.lexicons()]
    fams = [lx for lx in wn.lexicons() if lx.extensions()]
    for lx in fams:
        selections.append([lx.specifier()] + [x.specifier() for x in lx.extensions(depth=-1)])
    for sel in selections:
        with warnings.catch_warnings():
            warnings.simplefilter('ignore')
            w = wn.Wordnet(' '.join(sel)) if sel else wn.Wordnet()
        tag = ' '.join(sel) if sel else '<default>'
        t.add(f'{tag} lexicons', w.lexicons())
        t.add(f'{tag} expanded', w.expanded_lexicons())
        words, senses, synsets = w.words(), w.senses(), w.synsets()
        t.add(f'{tag} words()', words)
        t.add(f'{tag} senses()', senses)
        t.add(f'{tag} synsets()', synsets)
        t.add(f'{tag} ilis()', w.ilis())
        def group(entity_calls):
            """the calls on one entity, forward or (second pass) in reverse order: read-only calls must not
            influence one another, so both orders have to produce the same values"""
            for name, f in (reversed(entity_calls) if reverse else entity_calls):
                t.attempt(name, f)

        for x in (reversed(words) if reverse else words):
            k = canon(x)
            lem = str(x.lemma())
            group([
                (f'{tag} {k}.forms', x.forms),
                (f'{tag} {k}.tags', lambda x=x: [[(tg.tag, tg.category) for tg in f.tags()] for f in x.forms()]),
                (f'{tag} {k}.senses', x.senses),
                (f'{tag} {k}.synsets', x.synsets),
                (f'{tag} {k}.derived_words', x.derived_words),
                (f'{tag} {k}.metadata', x.metadata),
                (f'{tag} {k}.translate', lambda x=x: x.translate()),
                (f'{tag} {k}.pronunciations', lambda x=x: [[(p_.value, p_.variety, p_.notation, p_.phonemic, p_.audio) for p_ in f.pronunciations()] for f in x.forms()]),
                (f'{tag} {k} words({lem!r})', lambda lem=lem: w.words(lem)),
                (f'{tag} {k} synsets({lem!r})', lambda lem=lem: w.synsets(lem)),
            ])
        for x in (reversed(senses) if reverse else senses):
            k = canon(x)
            group([
                (f'{tag} {k}.word', x.word),
                (f'{tag} {k}.synset', x.synset),
                (f'{tag} {k}.relations', x.relations),
                (f'{tag} {k}.get_related', x.get_related),
                (f'{tag} {k}.get_related_synsets', lambda x=x: x.get_related_synsets('*')),
                (f'{tag} {k}.relation_map', x.relation_map),
                (f'{tag} {k}.closure', lambda x=x: list(x.closure())),
                (f'{tag} {k}.get_related(again)', x.get_related),
                (f'{tag} {k}.frames', x.frames),
                (f'{tag} {k}.examples', x.examples),
                (f'{tag} {k}.relation_paths', lambda x=x: list(x.relation_paths())),
                (f'{tag} {k}.translate', lambda x=x: x.translate()),
                (f'{tag} {k}.flags', lambda x=x: (x.adjposition(), x.lexicalized())),
                (f'{tag} {k}.counts', lambda x=x: [(int(c), c.metadata()) for c in x.counts()]),
                (f'{tag} {k}.metadata', x.metadata),
            ])
        for x in (reversed(synsets) if reverse else synsets):
            k = canon(x)
            group([
                (f'{tag} {k}.senses', x.senses),
                (f'{tag} {k}.words', x.words),
                (f'{tag} {k}.definition', x.definition),
                (f'{tag} {k}.examples', x.examples),
                (f'{tag} {k}.relations', x.relations),
                (f'{tag} {k}.get_related', x.get_related),
                (f'{tag} {k}.hypernyms', x.hypernyms),
                (f'{tag} {k}.relation_map', x.relation_map),
                (f'{tag} {k}.closure', lambda x=x: list(x.closure('hypernym', 'instance_hypernym'))),
                (f'{tag} {k}.closure()', lambda x=x: list(x.closure())),
                (f'{tag} {k}.hypernyms(again)', x.hypernyms),
                (f'{tag} {k}.get_related(again)', x.get_related),
                (f'{tag} {k}.hypernym_paths', x.hypernym_paths),
                (f'{tag} {k}.hypernym_paths(sr)', lambda x=x: x.hypernym_paths(simulate_root=True)),
                (f'{tag} {k}.depths', lambda x=x: (x.min_depth(), x.max_depth())),
                (f'{tag} {k}.translate', x.translate),
                (f'{tag} {k}.lemmas', x.lemmas),
                (f'{tag} {k}.hyponyms', x.hyponyms),
                (f'{tag} {k}.holonyms+meronyms', lambda x=x: (x.holonyms(), x.meronyms())),
                (f'{tag} {k}.relation_paths', lambda x=x: list(x.relation_paths('hypernym', 'instance_hypernym', 'similar'))),
                (f'{tag} {k}.attrs', lambda x=x: (x.pos, x.ili, x.lexfile(), x.lexicalized(), x.metadata())),
            ])
        # taxonomy / IC / similarity on the graph lexicons (hypernymy stays inside one part of speech there)
        if sel and len(sel) == 1 and sel[0].startswith('g') and not sel[0].startswith('g7') and len(synsets) <= 12:
            for pos in ('n', 'v', 'a'):
                t.add(f'{tag} roots({pos})', taxonomy.roots(w, pos))
                t.add(f'{tag} leaves({pos})', taxonomy.leaves(w, pos))
                t.add(f'{tag} taxonomy_depth({pos})', taxonomy.taxonomy_depth(w, pos))
            corpus = [str(x.lemma()) for x in words] * 2
            freq = wn.ic.compute(corpus, w)
            t.add(f'{tag} ic.compute', freq)
            for a in synsets:
                for b in synsets:
                    ka, kb = canon(a), canon(b)
                    for sr in (False, True):
                        t.attempt(f'{tag} shortest_path({ka},{kb},{sr})', a.shortest_path, b, simulate_root=sr)
                        t.attempt(f'{tag} common_hypernyms({ka},{kb},{sr})', a.common_hypernyms, b, simulate_root=sr)
                        t.attempt(f'{tag} lowest_common_hypernyms({ka},{kb},{sr})', a.lowest_common_hypernyms, b, simulate_root=sr)
                        t.attempt(f'{tag} path({ka},{kb},{sr})', similarity.path, a, b, simulate_root=sr)
                        t.attempt(f'{tag} wup({ka},{kb},{sr})', similarity.wup, a, b, simulate_root=sr)
                        t.attempt(f'{tag} lch({ka},{kb},{sr})', similarity.lch, a, b, 5, simulate_root=sr)
                    for name in ('res', 'jcn', 'lin'):
                        t.attempt(f'{tag} {name}({ka},{kb})', getattr(similarity, name), a, b, freq)
            m = Morphy(w)
            for x in words:
                for sfx in ('', 's', 'es', 'ing'):
                    t.add(f'{tag} morphy({str(x.lemma()) + sfx!r})', m(str(x.lemma()) + sfx))
    # ---- a Wordnet that lemmatizes: several candidate lemmas belonging to different entries
    if any(lx.id == 'mo' for lx in wn.lexicons()):
        for init in (False, True):
            wl = wn.Wordnet('mo:1')
            wl.lemmatizer = Morphy(wl) if init else Morphy()
            for q in ('axes', 'leaves', 'axe', 'axs', 'leafs'):
                for pos in (None, 'n', 'v'):
                    t.add(f'lemmatized({init}) words({q!r},{pos})', wl.words(q, pos))
                    t.add(f'lemmatized({init}) senses({q!r},{pos})', wl.senses(q, pos))
                    t.add(f'lemmatized({init}) synsets({q!r},{pos})', wl.synsets(q, pos))
    # ---- export (database -> bytes)
    for lx in wn.lexicons():
        if lx.extends() is None:
            for v in ('1.0', '1.3'):
                out = scratch / f'export-{lx.id}-{v}.xml'
                try:
                    wn.export([lx], out, version=v)
                    t.add(f'export({lx.specifier()},{v})', hashlib.sha256(out.read_bytes()).hexdigest() + ' ' + _frames_line(out))
                except wn.Error as exc:
                    t.add(f'export({lx.specifier()},{v})', f'wn.Error({exc})')
    # ---- load / dump / validate on the resource file
    res = lmf.load(resource_xml, progress_handler=None)
    out = scratch / 'dump.xml'
    lmf.dump(res, out)
    t.add('dump', hashlib.sha256(out.read_bytes()).hexdigest())
    t.add('scan_lexicons', lmf.scan_lexicons(resource_xml))
    for lx in res['lexicons']:
        if not lx.get('extends'):
            t.add(f'validate({lx["id"]})', validate(lx, progress_handler=None))


def _frames_line(path):
    import re
    tags = re.findall(rb'<SyntacticBehaviour[^>]*>', path.read_bytes())
    return ' '.join(x.decode('utf-8', 'replace') for x in tags[:8])


def main():
    from pathlib import Path
    data_dir, out, resource_xml = Path(sys.argv[1]), Path(sys.argv[2]), Path(sys.argv[3])
    env.import_wn()
    env.quiet()
    from vf.monitors.sql import SqlMonitor
    mon = SqlMonitor()
    mon.install()
    env.use_db_dir(data_dir)
    scratch = env.mkdtemp('battery')
    import wn
    wn.lexicons()
    conn = list(wn._db.pool.values())[0]
    changes0 = conn.total_changes
    reverse_first = len(sys.argv) > 4 and sys.argv[4] == 'reverse-first'
    extra = []
    t0 = None
    if reverse_first:
        # this process meets the calls in the opposite order first: whatever an earlier read-only call leaves behind
        # (caches, memoised lists) is then different from a process that starts with the forward order
        t0 = Transcript()
        battery(t0, data_dir, resource_xml, scratch, reverse=True)
    t1 = Transcript()
    with mon.call('battery'):
        battery(t1, data_dir, resource_xml, scratch)
    writes = [s for k, s in mon.stmts if k in ('WRITE', 'DDL')]
    t2 = Transcript()
    battery(t2, data_dir, resource_xml, scratch)
    if t1.lines != t2.lines:
        i = next(i for i, (a, b) in enumerate(zip(t1.lines, t2.lines)) if a != b)
        extra.append(f'REPEAT-DIFF line {i}: {t1.lines[i][:300]} ||| {t2.lines[i][:300]}')
    # the per-entity calls in reverse order - same values expected (compared as sorted lines)
    t3 = t0
    if t3 is None:
        t3 = Transcript()
        battery(t3, data_dir, resource_xml, scratch, reverse=True)
    a, b = sorted(t1.lines), sorted(t3.lines)
    if a != b:
        i = next((i for i, (x, y) in enumerate(zip(a, b)) if x != y), min(len(a), len(b)))
        extra.append(f'ORDER-DIFF: {a[i][:300] if i < len(a) else None} ||| {b[i][:300] if i < len(b) else None}')
    if writes or conn.total_changes != changes0:
        extra.append(f'WRITE-IN-READONLY {writes[:2]} total_changes {changes0}->{conn.total_changes}')
    out.write_text(json.dumps({'lines': t1.lines, 'calls': t1.calls, 'extra': extra}))
    env.rmtree(scratch)


if __name__ == '__main__':
    main()
