"""Logical dump and structural audit of the SQLite file, through a second, read-only connection."""

import hashlib
import json

from vf.monitors.sql import _real_connect


def _ro(path):
    conn = _real_connect('file:' + __import__('urllib.parse').parse.quote(str(path)) + '?mode=ro', uri=True)
    return conn


def dump(path):
    """{table: [row tuples incl. rowid]} of every table, rows ordered by rowid."""
    conn = _ro(path)
    try:
        tables = [r[0] for r in conn.execute(
            "SELECT name FROM sqlite_master WHERE type='table' AND name NOT LIKE 'sqlite_%' ORDER BY name")]
        out = {}
        for t in tables:
            rows = conn.execute(f'SELECT rowid, * FROM "{t}" ORDER BY rowid').fetchall()
            out[t] = [[c.decode('utf-8', 'replace') if isinstance(c, bytes) else c for c in row] for row in rows]
        return out
    finally:
        conn.close()


def digest(d):
    return hashlib.blake2b(json.dumps(d, sort_keys=True, default=str).encode(), digest_size=12).hexdigest()


def first_difference(a, b):
    for t in sorted(set(a) | set(b)):
        ra, rb = a.get(t), b.get(t)
        if ra != rb:
            if ra is None or rb is None:
                return f'table {t} present on one side only'
            sa, sb = {json.dumps(r, default=str) for r in ra}, {json.dumps(r, default=str) for r in rb}
            gone = sorted(sa - sb)[:2]
            new = sorted(sb - sa)[:2]
            return f'table {t}: {len(ra)} -> {len(rb)} rows; removed {gone} added {new}'
    return None


def content(d):
    """Row content without rowids, for route comparisons that may assign rowids differently: not used for
    tables whose columns are rowid references."""
    return {t: sorted(json.dumps(r[1:], default=str) for r in rows) for t, rows in d.items()}


OWNED = ['entries', 'forms', 'senses', 'synsets', 'synset_relations', 'sense_relations',
         'sense_synset_relations', 'definitions', 'synset_examples', 'sense_examples', 'counts',
         'syntactic_behaviours']


def audit(path):
    """Structural invariants at a quiescent point.  Returns a list of (key, message)."""
    import sqlite3
    conn = _ro(path)
    bad = []
    try:
        return _audit(conn, bad)
    except sqlite3.OperationalError as exc:
        # the schema is not the one these queries were written for: the generic checks done so far stand,
        # the rest cannot be asked (not a verdict about the property)
        return bad
    finally:
        conn.close()


def _audit(conn, bad):
    if True:
        rows = conn.execute('PRAGMA foreign_key_check').fetchall()
        if rows:
            bad.append(('fk-violation', f'foreign_key_check: {rows[:3]}'))
        rows = conn.execute('PRAGMA integrity_check').fetchall()
        if rows != [('ok',)]:
            bad.append(('integrity', f'integrity_check: {rows[:3]}'))
        q = conn.execute
        for t in OWNED:
            n = q(f'SELECT count(*) FROM {t} WHERE lexicon_rowid NOT IN (SELECT rowid FROM lexicons)').fetchone()[0]
            if n:
                bad.append(('orphan-rows', f'{n} rows of {t} owned by no installed lexicon'))
        checks = [
            ('forms', 'entry_rowid', 'entries'), ('senses', 'entry_rowid', 'entries'),
            ('senses', 'synset_rowid', 'synsets'), ('pronunciations', 'form_rowid', 'forms'),
            ('tags', 'form_rowid', 'forms'), ('synset_relations', 'source_rowid', 'synsets'),
            ('synset_relations', 'target_rowid', 'synsets'), ('sense_relations', 'source_rowid', 'senses'),
            ('sense_relations', 'target_rowid', 'senses'), ('sense_synset_relations', 'source_rowid', 'senses'),
            ('sense_synset_relations', 'target_rowid', 'synsets'), ('definitions', 'synset_rowid', 'synsets'),
            ('synset_examples', 'synset_rowid', 'synsets'), ('sense_examples', 'sense_rowid', 'senses'),
            ('counts', 'sense_rowid', 'senses'), ('adjpositions', 'sense_rowid', 'senses'),
            ('syntactic_behaviour_senses', 'sense_rowid', 'senses'),
            ('syntactic_behaviour_senses', 'syntactic_behaviour_rowid', 'syntactic_behaviours'),
            ('proposed_ilis', 'synset_rowid', 'synsets'),
            ('lexicon_dependencies', 'dependent_rowid', 'lexicons'),
            ('lexicon_extensions', 'extension_rowid', 'lexicons'),
        ]
        for t, col, parent in checks:
            n = q(f'SELECT count(*) FROM {t} WHERE {col} IS NULL OR {col} NOT IN (SELECT rowid FROM {parent})').fetchone()[0]
            if n:
                bad.append(('dangling-reference', f'{n} rows of {t}.{col} without a live {parent} row'))
        # dependency / extension links in step with what is installed
        for dep, pid, pver, prow in q('SELECT dependent_rowid, provider_id, provider_version, provider_rowid FROM lexicon_dependencies'):
            row = q('SELECT rowid FROM lexicons WHERE id=? AND version=?', (pid, pver)).fetchone()
            want = row[0] if row else None
            if prow != want:
                bad.append(('dependency-link', f'requires {pid}:{pver}: provider_rowid={prow}, installed rowid={want}'))
        for ext, bid, bver, brow in q('SELECT extension_rowid, base_id, base_version, base_rowid FROM lexicon_extensions'):
            row = q('SELECT rowid FROM lexicons WHERE id=? AND version=?', (bid, bver)).fetchone()
            want = row[0] if row else None
            if brow != want or want is None:
                bad.append(('extension-link', f'extends {bid}:{bver}: base_rowid={brow}, installed rowid={want}'))
        n = q('SELECT count(*) FROM synsets WHERE ili_rowid IS NOT NULL AND ili_rowid NOT IN (SELECT rowid FROM ilis)').fetchone()[0]
        if n:
            bad.append(('dangling-reference', f'{n} synsets with a dead ili_rowid'))
    return bad
