"""Trace and authorizer monitors on the SQLite connection the library itself opens.

``install()`` wraps ``sqlite3.connect`` (which ``wn._db.connect`` looks up at call time), so every
connection the library creates gets a trace callback and an authorizer.  The monitor keeps

* the statement stream of the current *API call bracket* (``with monitor.call('add'):``),
* an online checker of the transaction-bracket specification,
* the write-set per call as (table, action) pairs from the authorizer,
* an optional fault: deny the k-th write authorisation of a call.
"""

import re
import sqlite3
from collections import Counter
from contextlib import contextmanager

_real_connect = sqlite3.connect

WRITE_ACTIONS = {
    sqlite3.SQLITE_INSERT: 'INSERT',
    sqlite3.SQLITE_UPDATE: 'UPDATE',
    sqlite3.SQLITE_DELETE: 'DELETE',
}
SCHEMA_TABLES = {'sqlite_master', 'sqlite_schema', 'sqlite_sequence', 'sqlite_temp_master'}

_WRITE_RE = re.compile(r'^\s*(INSERT|UPDATE|DELETE|REPLACE)\b', re.I)
_DDL_RE = re.compile(r'^\s*(CREATE|DROP|ALTER)\b', re.I)


class SqlMonitor:
    def __init__(self, rec=None):
        self.rec = rec
        self.conns = []
        self.in_txn = False
        self.stmts = []            # (kind, sql) of the current bracket
        self.bracket = None
        self.spec_violations = []
        self.writeset = Counter()  # (table, action) of the current bracket
        self.write_auths = 0
        self.deny_at = None        # deny the k-th write authorisation of the bracket
        self.denied = None
        self.total = Counter()
        self.tables_written = set()
        self.installed = False

    # ------------------------------------------------------------ plumbing
    def install(self):
        if self.installed:
            return
        mon = self

        def connect(*a, **kw):
            conn = _real_connect(*a, **kw)
            mon.attach(conn)
            return conn

        sqlite3.connect = connect
        self.installed = True

    def uninstall(self):
        sqlite3.connect = _real_connect
        self.installed = False

    def attach(self, conn):
        conn.set_trace_callback(self._trace)
        conn.set_authorizer(self._auth)
        self.conns.append(conn)
        self.in_txn = False

    # ------------------------------------------------------------ callbacks
    def _trace(self, sql):
        s = sql.strip()
        up = s[:12].upper()
        if up.startswith('BEGIN'):
            kind = 'BEGIN'
            self.in_txn = True
        elif up.startswith('COMMIT') or up.startswith('END'):
            kind = 'COMMIT'
            self.in_txn = False
        elif up.startswith('ROLLBACK'):
            kind = 'ROLLBACK'
            self.in_txn = False
        elif s.startswith('--'):
            kind = 'SUB'           # trigger / cascade sub-program
        elif _WRITE_RE.match(s):
            kind = 'WRITE'
            if not self.in_txn:
                self.spec_violations.append(('write-outside-transaction', s[:200]))
        elif _DDL_RE.match(s):
            kind = 'DDL'
        elif up.startswith('PRAGMA'):
            kind = 'PRAGMA'
        else:
            kind = 'READ'
        self.total[kind] += 1
        if self.rec is not None:
            self.rec.event('sql.' + kind)
        if self.bracket is not None:
            self.stmts.append((kind, s[:300]))

    def _auth(self, action, arg1, arg2, dbname, source):
        if action in WRITE_ACTIONS and arg1 not in SCHEMA_TABLES:
            self.write_auths += 1
            self.writeset[(arg1, WRITE_ACTIONS[action])] += 1
            self.tables_written.add(arg1)
            if self.rec is not None:
                self.rec.event('auth.write')
            if self.deny_at is not None and self.write_auths == self.deny_at:
                self.denied = (arg1, WRITE_ACTIONS[action])
                if self.rec is not None:
                    self.rec.event('auth.denied')
                return sqlite3.SQLITE_DENY
        return sqlite3.SQLITE_OK

    # ------------------------------------------------------------ brackets
    @contextmanager
    def call(self, name, deny_at=None):
        self.bracket = name
        self.stmts = []
        self.writeset = Counter()
        self.write_auths = 0
        self.deny_at = deny_at
        self.denied = None
        try:
            yield self
        finally:
            self.bracket = None
            self.deny_at = None

    def summary(self):
        kinds = [k for k, _ in self.stmts]
        return {
            'begins': kinds.count('BEGIN'), 'commits': kinds.count('COMMIT'),
            'rollbacks': kinds.count('ROLLBACK'), 'writes': kinds.count('WRITE'),
            'kinds': kinds,
        }

    def check_atomic_success(self):
        """One write transaction, committed once, all writes inside it."""
        kinds = [k for k, _ in self.stmts]
        out = []
        writes = [i for i, k in enumerate(kinds) if k == 'WRITE']
        if writes:
            commits = [i for i, k in enumerate(kinds) if k == 'COMMIT']
            first, last = writes[0], writes[-1]
            inner = [i for i in commits if first < i < last]
            if inner:
                out.append(('commit-between-writes', f'{len(inner)} COMMIT(s) between the first and the last write of one call'))
            if not [i for i in commits if i > last]:
                out.append(('no-commit-after-writes', 'successful call ended without COMMIT'))
        return out

    def check_atomic_failure(self):
        """A failing call: no COMMIT after its first write."""
        kinds = [k for k, _ in self.stmts]
        out = []
        writes = [i for i, k in enumerate(kinds) if k == 'WRITE']
        if writes:
            first = writes[0]
            tc = [k for k in kinds[first:] if k in ('COMMIT', 'ROLLBACK', 'BEGIN', 'WRITE')]
            for i, k in enumerate(tc):
                # a COMMIT that is immediately followed by ROLLBACK is a commit that itself failed
                # (e.g. aborted by the progress handler): sqlite3 then rolls the transaction back
                if k == 'COMMIT' and not (i + 1 < len(tc) and tc[i + 1] == 'ROLLBACK'):
                    out.append(('commit-in-failed-call', 'COMMIT after the first write of a call that then failed'))
                    break
        return out

    def check_readonly(self):
        kinds = [k for k, _ in self.stmts]
        bad = [s for k, s in self.stmts if k in ('WRITE', 'DDL')]
        if bad or self.write_auths:
            return [('write-in-readonly-call', (bad or [str(dict(self.writeset))])[0][:200])]
        return []

    def drain_spec_violations(self):
        v, self.spec_violations = self.spec_violations, []
        return v
