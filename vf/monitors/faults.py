"""Fault injection at hooks the code already has (progress handler, SQLite progress handler) and at
source-free failpoints (sys.monitoring LINE events inside chosen modules of the library)."""

import sys
import types

from wn.util import ProgressHandler


class InjectedFault(Exception):
    pass


# ---------------------------------------------------------------- progress-handler faults
class _Counter:
    n = 0          # callbacks seen in the current bracket
    fail_at = None  # raise at this callback (1-based)
    fired = False
    kinds = None


def make_faulty_progress(counter):
    """A ProgressHandler subclass whose k-th update()/flash() raises InjectedFault."""

    class FaultyProgress(ProgressHandler):
        def _tick(self, kind):
            counter.n += 1
            if counter.kinds is not None:
                counter.kinds[kind] = counter.kinds.get(kind, 0) + 1
            if counter.fail_at is not None and counter.n == counter.fail_at:
                counter.fired = True
                raise InjectedFault(f'progress callback #{counter.n} ({kind})')

        def update(self, n=1, force=False):
            self._tick('update')
            super().update(n, force)

        def flash(self, message):
            self._tick('flash')

    return FaultyProgress


def new_counter():
    c = _Counter()
    c.n, c.fail_at, c.fired, c.kinds = 0, None, False, {}
    return c


# ---------------------------------------------------------------- line failpoints
TOOL = None


def _tool():
    global TOOL
    if TOOL is None:
        mon = sys.monitoring
        for tid in (mon.DEBUGGER_ID, mon.COVERAGE_ID, mon.PROFILER_ID, mon.OPTIMIZER_ID, 4, 3):
            try:
                if mon.get_tool(tid) is None:
                    mon.use_tool_id(tid, 'vf-failpoints')
                    TOOL = tid
                    break
            except ValueError:
                continue
        if TOOL is None:
            raise RuntimeError('no free sys.monitoring tool id')
    return TOOL


def code_objects(module):
    """All code objects defined in a module (functions, methods, nested comprehensions/lambdas)."""
    seen, out = set(), []

    def walk(code):
        if id(code) in seen:
            return
        seen.add(id(code))
        out.append(code)
        for c in code.co_consts:
            if isinstance(c, types.CodeType):
                walk(c)

    for obj in vars(module).values():
        if isinstance(obj, types.FunctionType) and obj.__module__ == module.__name__:
            walk(obj.__code__)
        elif isinstance(obj, type) and obj.__module__ == module.__name__:
            for m in vars(obj).values():
                f = getattr(m, '__func__', m)
                if isinstance(f, types.FunctionType):
                    walk(f.__code__)
    return out


class LineFailpoints:
    """Raise InjectedFault at the k-th LINE event inside the given modules during a bracket."""

    def __init__(self, modules):
        self.codes = [c for m in modules for c in code_objects(m)]
        self.n = 0
        self.fail_at = None
        self.fired = None
        self.reached = set()
        self.tool = _tool()
        sys.monitoring.register_callback(self.tool, sys.monitoring.events.LINE, self._line)

    def _line(self, code, lineno):
        self.n += 1
        self.reached.add((code.co_name, lineno))
        if self.fail_at is not None and self.n == self.fail_at:
            self.fired = (code.co_name, lineno)
            raise InjectedFault(f'failpoint at {code.co_name}:{lineno} (line event #{self.n})')

    def __enter__(self):
        self.n = 0
        self.fired = None
        ev = sys.monitoring.events.LINE
        for c in self.codes:
            sys.monitoring.set_local_events(self.tool, c, ev)
        return self

    def __exit__(self, *exc):
        for c in self.codes:
            sys.monitoring.set_local_events(self.tool, c, 0)
        return False


# ---------------------------------------------------------------- SQLite VM abort (mid-statement)
class ConnProxy:
    """Stands in for the library's connection inside one function: forwards everything, but installs the
    SQLite progress handler with a small instruction interval so that the caller-supplied handler fires
    in the middle of a (cascading) statement."""

    def __init__(self, real, interval):
        object.__setattr__(self, '_real', real)
        object.__setattr__(self, '_interval', interval)

    def set_progress_handler(self, handler, n):
        if handler is None:
            return self._real.set_progress_handler(None, 0)
        return self._real.set_progress_handler(handler, self._interval)

    def __enter__(self):
        return self._real.__enter__()

    def __exit__(self, *a):
        return self._real.__exit__(*a)

    def __getattr__(self, name):
        return getattr(self._real, name)

    def __setattr__(self, name, value):
        setattr(self._real, name, value)
