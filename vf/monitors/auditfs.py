"""File-system monitor on sys.addaudithook: which paths are opened for writing, which temporary
files/directories are created during a bracket and whether they are gone afterwards; plus
ResourceWarning collection (with tracemalloc allocation sites) for resources allocated inside wn/."""

import gc
import os
import sys
import tracemalloc
import warnings
from contextlib import contextmanager

from vf import env

_state = {'on': False, 'writes': [], 'temps': [], 'opens': 0, 'installed': False}


def _hook(event, args):
    if not _state['on']:
        return
    try:
        if event == 'open':
            path, mode, flags = args
            _state['opens'] += 1
            if isinstance(path, (str, bytes, os.PathLike)):
                m = mode or ''
                wr = any(c in m for c in 'wax+') if isinstance(m, str) else False
                if not m and isinstance(flags, int):
                    wr = bool(flags & (os.O_WRONLY | os.O_RDWR | os.O_CREAT | os.O_TRUNC | os.O_APPEND))
                if wr:
                    _state['writes'].append(os.fsdecode(path))
        elif event in ('tempfile.mkstemp', 'tempfile.mkdtemp'):
            _state['temps'].append(os.fsdecode(args[0]))
    except Exception:
        pass


def install():
    if not _state['installed']:
        sys.addaudithook(_hook)
        _state['installed'] = True
        if not tracemalloc.is_tracing():
            tracemalloc.start(8)


class Bracket:
    def __init__(self):
        self.writes = []
        self.temps = []
        self.leftover = []
        self.opens = 0
        self.resource_warnings = []


@contextmanager
def watch():
    install()
    b = Bracket()
    _state['writes'], _state['temps'], _state['opens'] = [], [], 0
    with warnings.catch_warnings(record=True) as caught:
        warnings.simplefilter('always', ResourceWarning)
        _state['on'] = True
        try:
            yield b
        finally:
            _state['on'] = False
            gc.collect()
            b.writes = list(_state['writes'])
            b.temps = list(_state['temps'])
            b.opens = _state['opens']
            b.leftover = [p for p in b.temps if os.path.exists(p)]
            repo = str(env.REPO / 'wn')
            for w in caught:
                if issubclass(w.category, ResourceWarning):
                    where = []
                    if w.source is not None:
                        tb = tracemalloc.get_object_traceback(w.source)
                        if tb is not None:
                            where = [f'{fr.filename}:{fr.lineno}' for fr in tb]
                    if any(x.startswith(repo) for x in where):
                        b.resource_warnings.append((str(w.message), [x for x in where if x.startswith(repo)][:3]))
