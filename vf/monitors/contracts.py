"""Runtime contracts (icontract) on the real functions, applied from the harness: post-conditions that must hold for
every call, whoever makes it - the harness' workloads or the repository's own test-suite (vf.pytest_plugin).

Conditions *record and return True* (a raising contract would abort what it observes); evaluation counters are kept so
that a run in which a contract was never evaluated is inconclusive rather than held.
"""

import math
from collections import Counter

import icontract

EVALS = Counter()
VIOLATIONS = []          # (property, key, message)
_guard = {'depth': 0}


def _fail(prop, key, msg):
    if len(VIOLATIONS) < 200:
        VIOLATIONS.append((prop, key, msg[:600]))


def _linked(a, b):
    """hypernymy in either direction (the virtual root is adjacent to anything)"""
    if a.id == '*ROOT*' or b.id == '*ROOT*':
        return True
    return b in a.hypernyms() or a in b.hypernyms()


# ---------------------------------------------------------------- C13
def post_shortest_path(synset, other, result, simulate_root=False):
    EVALS['taxonomy.shortest_path'] += 1
    if _guard['depth']:
        return True
    _guard['depth'] += 1
    try:
        if synset == other:
            if result != []:
                _fail('C13', 'contract:shortest_path', f'shortest_path({synset.id},{other.id}) = {result} for identical synsets')
            return True
        if not result or result[-1] != other or synset in result:
            _fail('C13', 'contract:shortest_path', f'shortest_path({synset.id},{other.id}) = {[x.id for x in result]} does not end at the target')
            return True
        prev = synset
        for x in result:
            if not _linked(prev, x):
                _fail('C13', 'contract:shortest_path', f'shortest_path({synset.id},{other.id}) = {[y.id for y in result]}: {prev.id} and {x.id} are not linked by hypernymy')
                break
            prev = x
        from wn import taxonomy
        back = taxonomy.shortest_path(other, synset, simulate_root=simulate_root)
        if len(back) != len(result):
            _fail('C13', 'contract:shortest_path-asymmetric', f'|shortest_path({synset.id},{other.id})| = {len(result)} but the reverse has {len(back)}')
    finally:
        _guard['depth'] -= 1
    return True


def post_depths(synset, result, simulate_root=False):
    EVALS['taxonomy.depth'] += 1
    if not isinstance(result, int) or result < 0:
        _fail('C13', 'contract:depth', f'depth of {synset.id} = {result!r}')
    return True


def post_hypernym_paths(synset, result, simulate_root=False):
    EVALS['taxonomy.hypernym_paths'] += 1
    for p in result:
        ids = [x._id for x in p if x.id not in ('*ROOT*', '*INFERRED*')]
        if len(set(ids)) != len(ids) or synset._id in ids:
            _fail('C13', 'contract:hypernym_paths', f'hypernym_paths({synset.id}) yields a non-simple chain {[x.id for x in p]}')
            break
    return True


# ---------------------------------------------------------------- C14
def _sym(name, f, args, kwargs, result):
    if _guard['depth']:
        return
    _guard['depth'] += 1
    try:
        a, b = args[0], args[1]
        try:
            other = f(b, a, *args[2:], **kwargs)
        except Exception as exc:
            _fail('C14', f'contract:{name}-asymmetric', f'{name}({a.id},{b.id}) = {result!r} but the mirrored call raised {type(exc).__name__}')
            return
        if not (other == result or abs(other - result) <= 1e-12 * max(abs(other), abs(result))):
            _fail('C14', f'contract:{name}-asymmetric', f'{name}({a.id},{b.id}) = {result!r} but {name}({b.id},{a.id}) = {other!r}')
    finally:
        _guard['depth'] -= 1


def make_similarity_post(name, real):
    def post(synset1, synset2, result):
        EVALS['similarity.' + name] += 1
        if isinstance(result, bool) or not isinstance(result, (int, float)) or (isinstance(result, float) and math.isnan(result)):
            _fail('C14', f'contract:{name}-range', f'{name}({synset1.id},{synset2.id}) = {result!r}')
            return True
        if name == 'path' and not (0 <= result <= 1 and (synset1 != synset2 or result == 1)):
            _fail('C14', 'contract:path-range', f'path({synset1.id},{synset2.id}) = {result!r}')
        if name == 'wup' and not (0 < result <= 1 and (synset1 != synset2 or result == 1)):
            _fail('C14', 'contract:wup-range', f'wup({synset1.id},{synset2.id}) = {result!r}')
        if name in ('res', 'jcn', 'lin') and result < 0:
            _fail('C14', f'contract:{name}-range', f'{name}({synset1.id},{synset2.id}) = {result!r}')
        return True
    return post


# ---------------------------------------------------------------- C15
def post_compute(corpus, wordnet, result, distribute_weight=True, smoothing=1.0):
    EVALS['ic.compute'] += 1
    try:
        for pos, table in result.items():
            total = table[None]
            for ssid, w in table.items():
                if ssid is not None and w > total + 1e-9:
                    _fail('C15', 'contract:ic-weight-exceeds-total', f'compute(): weight of {ssid} = {w} > total {total} for {pos!r}')
                    return True
        synsets = wordnet.synsets()
        if len(synsets) <= 400:
            for ss in synsets:
                pos = 'a' if ss.pos == 's' else ss.pos
                if pos not in result or ss.id not in result[pos]:
                    continue
                for h in ss.hypernyms():
                    hp = 'a' if h.pos == 's' else h.pos
                    if hp in result and h.id in result[hp] and result[hp][h.id] < result[pos][ss.id] - 1e-9 and hp == pos:
                        _fail('C15', 'contract:ic-not-monotone', f'compute(): hypernym {h.id} weighs {result[hp][h.id]} < hyponym {ss.id} {result[pos][ss.id]}')
                        return True
    except Exception as exc:      # the contract itself must never disturb the call
        EVALS['ic.compute.contract-error'] += 1
    return True


# ---------------------------------------------------------------- C09 / C04
def post_find_helper(w, cls, query_func, form, pos, result, ili=None):
    EVALS['_find_helper'] += 1
    try:
        # no duplicates
        if len(set(result)) != len(result):
            _fail('C09', 'contract:search-duplicates', f'{cls.__name__} search ({form!r},{pos!r}) returns duplicates')
        # membership: every result belongs to a selected lexicon
        lexids = set(w._lexicon_ids)
        if lexids:
            for x in result:
                EVALS['membership'] += 1
                if x._lexid not in lexids:
                    _fail('C04', 'contract:outside-selection', f'{cls.__name__}({x.id}) returned by a search is not in the selected lexicons')
                    break
        # every word found by a form really has a matching form (no lemmatizer: the query itself is what is matched)
        if form is not None and w.lemmatizer is None and cls.__name__ == 'Word':
            norm = w._normalizer
            for x in result:
                forms = [str(f) for f in (x.forms() if w._search_all_forms else [x.lemma()])]
                cands = {form} | ({norm(form)} if norm else set())
                ok = any(f in cands or (norm and norm(f) in cands) for f in forms)
                if not ok:
                    _fail('C09', 'contract:result-without-matching-form', f'word {x.id} returned for {form!r} has forms {forms}')
                    break
    except Exception:
        EVALS['_find_helper.contract-error'] += 1
    return True


def post_relations(self, result):
    EVALS['relations'] += 1
    for name, targets in result.items():
        if len(set(targets)) != len(targets):
            _fail('C11', 'contract:relation-duplicates', f'{type(self).__name__}({self.id}).relations()[{name!r}] has duplicates')
            break
    return True


def install():
    """wrap the real functions (module attributes are looked up at call time by their callers)"""
    import wn
    from wn import taxonomy, similarity, ic, _core

    def wrap(mod, name, post, snapshot=None):
        real = getattr(mod, name)
        if getattr(real, '_vf_contract', False):
            return
        dec = icontract.ensure(post)(real)
        dec._vf_contract = True
        setattr(mod, name, dec)

    wrap(taxonomy, 'shortest_path', post_shortest_path)
    wrap(taxonomy, 'min_depth', post_depths)
    wrap(taxonomy, 'max_depth', post_depths)
    wrap(taxonomy, 'hypernym_paths', post_hypernym_paths)
    for name in ('path', 'wup', 'lch', 'res', 'jcn', 'lin'):
        real = getattr(similarity, name)
        if getattr(real, '_vf_contract', False):
            continue
        post = make_similarity_post(name, real)
        dec = icontract.ensure(post)(real)
        dec._vf_contract = True

        def outer(*a, _dec=dec, _name=name, **kw):
            res = _dec(*a, **kw)
            _sym(_name, _dec, a, kw, res)
            return res
        outer._vf_contract = True
        outer.__name__ = name
        setattr(similarity, name, outer)
    wrap(ic, 'compute', post_compute)
    wrap(_core, '_find_helper', post_find_helper)
    for cls in (wn.Synset, wn.Sense):
        real = cls.relations
        if not getattr(real, '_vf_contract', False):
            dec = icontract.ensure(post_relations)(real)
            dec._vf_contract = True
            cls.relations = dec


def drain():
    v = list(VIOLATIONS)
    VIOLATIONS.clear()
    return v
