"""Walk the public query API of the real library and return a canonical, rowid-free observation.

Everything is identified by ``<lexicon specifier>::<id>``; nothing database-internal leaks into the
result, so observations of different databases (or of the reference model) can be compared.
Only public methods are called.  Every entity object touched is passed to ``visit`` (monitors:
C04 membership invariant, C10 identity filing).
"""

import wn

ERR = '<<wn.Error>>'


def key_of(obj):
    if isinstance(obj, wn.Synset) and obj.id == '*INFERRED*':
        return f'*INFERRED*::{obj._ili}' if hasattr(obj, '_ili') else '*INFERRED*::?'
    return f'{obj.lexicon().specifier()}::{obj.id}'


class Walker:
    def __init__(self, rec=None, visit=None, relations=True, deep=True):
        self.rec = rec
        self.visit = visit
        self.relations = relations
        self.deep = deep
        self._lexspec = {}
        self._second = []

    def call(self, name):
        if self.rec is not None:
            self.rec.call(name)

    def k(self, obj, via):
        """Identity of an entity object; tells the monitors about the object."""
        if isinstance(obj, wn.Synset) and obj.id == '*INFERRED*':
            ili = obj.ili
            key = f'*INFERRED*::{ili.id if ili is not None else None}'
            if self.visit:
                self.visit(obj, key, via, placeholder=True)
            return key
        # Lexicon lookups are cached per object-internal lexicon reference only through the
        # public call; lexicon() is cheap enough
        lex = obj.lexicon()
        self.call('lexicon')
        key = f'{lex.specifier()}::{obj.id}'
        if self.visit:
            self.visit(obj, key, via, placeholder=False)
        return key

    # ------------------------------------------------------------------
    def lexicon(self, lex):
        self.call('Lexicon.*')
        req = {}
        for spec, l2 in lex.requires().items():
            req[spec] = None if l2 is None else l2.specifier()
        ext = lex.extends()
        return {
            'id': lex.id, 'label': lex.label, 'language': lex.language, 'email': lex.email,
            'license': lex.license, 'version': lex.version, 'url': lex.url, 'citation': lex.citation,
            'logo': lex.logo, 'meta': lex.metadata() or None, 'modified': lex.modified(),
            'requires': req,
            'extends': ext.specifier() if ext is not None else None,
            'extensions': [x.specifier() for x in lex.extensions()],
            'all_extensions': [x.specifier() for x in lex.extensions(depth=-1)],
        }

    def form(self, f):
        self.call('Form.*')
        return {
            'form': str(f), 'id': f.id, 'script': f.script,
            'tags': [[t.tag, t.category] for t in f.tags()],
            'prons': [[p.value, p.variety, p.notation, p.phonemic, p.audio] for p in f.pronunciations()],
        }

    def word(self, w):
        self.call('Word.*')
        forms = w.forms()
        senses = w.senses()
        d = {
            'pos': w.pos,
            'meta': w.metadata() or None,
            'lemma': str(w.lemma()),
            'forms': [self.form(f) for f in forms],
            'senses': [self.k(s, 'Word.senses') for s in senses],
        }
        try:
            d['synsets'] = [self.k(ss, 'Word.synsets') for ss in w.synsets()]
        except wn.Error:
            d['synsets'] = ERR
        return d

    def _relmap(self, obj, via):
        out = []
        for rel, tgt in obj.relation_map().items():
            out.append([rel.name, rel.source_id, rel.target_id, rel.lexicon().specifier(), rel.subtype,
                        rel.metadata() or None, self.k(tgt, via)])
        return out

    def sense(self, s):
        self.call('Sense.*')
        d = {}
        try:
            d['word'] = self.k(s.word(), 'Sense.word')
        except wn.Error:
            d['word'] = ERR
        try:
            d['synset'] = self.k(s.synset(), 'Sense.synset')
        except wn.Error:
            d['synset'] = ERR
        d['examples'] = list(s.examples())
        d['counts'] = [[int(c), c.metadata() or None] for c in s.counts()]
        d['frames'] = list(s.frames())
        d['adjposition'] = s.adjposition()
        d['lexicalized'] = s.lexicalized()
        d['meta'] = s.metadata() or None
        if self.relations:
            d['relations'] = {name: [self.k(t, 'Sense.relations') for t in tgts]
                              for name, tgts in s.relations().items()}
            d['related'] = [self.k(t, 'Sense.get_related') for t in s.get_related()]
            d['related_synsets'] = [self.k(t, 'Sense.get_related_synsets') for t in s.get_related_synsets('*')]
            d['relmap'] = self._relmap(s, 'Sense.relation_map')
        return d

    def ili(self, i):
        if i is None:
            return None
        return [i.id, i.status, i.definition()]

    def synset(self, ss):
        self.call('Synset.*')
        d = {
            'pos': ss.pos,
            'ili': self.ili(ss.ili),
            'definition': ss.definition(),
            'examples': list(ss.examples()),
            'lexfile': ss.lexfile(),
            'lexicalized': ss.lexicalized(),
            'meta': ss.metadata() or None,
            'senses': [self.k(s, 'Synset.senses') for s in ss.senses()],
        }
        ili = ss.ili
        if ili is not None and ili.status == 'proposed':
            d['ili_meta'] = ili.metadata() or None
        elif ili is not None:
            d['ili_inv_meta'] = ili.metadata() or None      # shared ILI inventory: set by whoever introduced the ILI
        try:
            d['words'] = [self.k(w, 'Synset.words') for w in ss.words()]
            d['lemmas'] = [str(x) for x in ss.lemmas()]
        except wn.Error:
            d['words'] = ERR
            d['lemmas'] = ERR
        if self.relations:
            d['relations'] = {name: [self.k(t, 'Synset.relations') for t in tgts]
                              for name, tgts in ss.relations().items()}
            targets = ss.get_related()
            d['related'] = [self.k(t, 'Synset.get_related') for t in targets]
            d['relmap'] = self._relmap(ss, 'Synset.relation_map')
            # second hop from the objects a relation handed out (checked after the walk against what the same synset
            # answers when it is enumerated directly: equal objects, same Wordnet, same answer)
            for t, tkey in list(zip(targets, d['related']))[:3]:
                if not tkey.startswith('*INFERRED*'):
                    self.call('Synset.get_related(second hop)')
                    self._second.append((tkey, [self.k(x, 'Synset.get_related(second hop)') for x in t.get_related()]))
        return d

    # ------------------------------------------------------------------
    def wordnet(self, w):
        obs = {'lexicons': {}, 'words': {}, 'senses': {}, 'synsets': {}}
        for lex in w.lexicons():
            obs['lexicons'][lex.specifier()] = self.lexicon(lex)
        obs['expanded'] = sorted({lx.specifier() for lx in w.expanded_lexicons()})  # compared as a set
        self.call('Wordnet.words')
        for x in w.words():
            key = self.k(x, 'Wordnet.words')
            if key in obs['words']:
                obs['words'][key + '#dup'] = 'duplicate'
            obs['words'][key] = self.word(x)
        self.call('Wordnet.senses')
        for x in w.senses():
            key = self.k(x, 'Wordnet.senses')
            if key in obs['senses']:
                obs['senses'][key + '#dup'] = 'duplicate'
            obs['senses'][key] = self.sense(x)
        self.call('Wordnet.synsets')
        for x in w.synsets():
            key = self.k(x, 'Wordnet.synsets')
            if key in obs['synsets']:
                obs['synsets'][key + '#dup'] = 'duplicate'
            obs['synsets'][key] = self.synset(x)
        self.call('Wordnet.ilis')
        obs['ilis'] = [self.ili(i) for i in w.ilis()]
        obs['byid'] = self.by_id(w, obs)
        for tkey, got in self._second:
            direct = obs['synsets'].get(tkey)
            if isinstance(direct, dict) and 'related' in direct and got != direct['related']:
                obs['byid'][f'second-hop({tkey})'] = (f'get_related() of {tkey} reached as a relation target gives {got}, '
                                                     f'the same synset enumerated directly gives {direct["related"]}')
        return obs

    def by_id(self, w, obs):
        """Look-ups by identifier through the same Wordnet: the result must be one of the enumerated entities carrying
        that identifier (identifiers may collide between lexicons of the scope: any of them is admissible), equal to it
        when there is only one; an unknown identifier must not produce an entity.  Only what is wrong is filed."""
        bad = {}
        for kind, getter, lister in (('words', w.word, w.words), ('senses', w.sense, w.senses), ('synsets', w.synset, w.synsets)):
            cands = {}
            for key in obs[kind]:
                if not key.endswith('#dup'):
                    cands.setdefault(key.split('::', 1)[1], []).append(key)
            objs = {}
            for x in lister():
                objs.setdefault(x.id, []).append(x)
            for id_, keys in cands.items():
                self.call(f'Wordnet.{kind[:-1]}(id)')
                try:
                    got = getter(id_)
                except wn.Error as exc:
                    bad[f'{kind[:-1]}({id_!r})'] = f'wn.Error: {exc}'
                    continue
                k = self.k(got, f'Wordnet.{kind[:-1]}(id)')
                if k not in keys:
                    bad[f'{kind[:-1]}({id_!r})'] = f'returned {k}, which is not among the enumerated {keys}'
                elif len(keys) == 1 and not (got == objs[id_][0] and hash(got) == hash(objs[id_][0])):
                    bad[f'{kind[:-1]}({id_!r})'] = 'the object looked up by id is not equal to the enumerated one'
            try:
                got = getter('\x7fno such id')
                if got is not None:
                    bad[f'{kind[:-1]}(unknown id)'] = f'returned {got!r} for an identifier nothing has'
            except Exception:
                pass        # how an unknown identifier is refused is not part of any property
        for i in obs['ilis']:
            if i and i[0] is not None:
                self.call('Wordnet.synsets(ili)')
                want = sorted(k_ for k_, d in obs['synsets'].items() if isinstance(d, dict) and d.get('ili') and d['ili'][0] == i[0])
                got = sorted(self.k(x, 'Wordnet.synsets(ili)') for x in w.synsets(ili=i[0]))
                if got != want:
                    bad[f'synsets(ili={i[0]!r})'] = f'returned {got}, the enumerated synsets with that ILI are {want}'
                self.call('Wordnet.ili(id)')
                try:
                    got = w.ili(i[0])
                    if [got.id, got.status, got.definition()] != list(i):
                        bad[f'ili({i[0]!r})'] = f'reports {[got.id, got.status, got.definition()]}, the listing {i}'
                except wn.Error as exc:
                    bad[f'ili({i[0]!r})'] = f'wn.Error: {exc}'
        # ilis(status=...) through the same Wordnet: the sub-list of ilis() with that status
        listed = [i for i in obs['ilis'] if i]
        for st in sorted({i[1] for i in listed} | {'proposed', 'presupposed'}):
            self.call('Wordnet.ilis(status)')
            want = sorted((str(i[0]), str(i[2])) for i in listed if i[1] == st)
            got = sorted((str(x.id), str(x.definition())) for x in w.ilis(status=st))
            if got != want:
                bad[f'ilis(status={st!r})'] = f'returned {got}, ilis() lists {want} with that status'
        return bad


def observe(w, rec=None, visit=None, relations=True):
    return Walker(rec, visit, relations).wordnet(w)
