"""An independent WN-LMF writer: document model -> bytes, with varied but equivalent surface form.

Nothing here comes from ``wn.lmf``.  Surface variation (attribute order, quote style, character
references, CDATA sections, comments, white space that the loader must normalise) is driven
by a ``random.Random`` so a case can be replayed.
"""

import random

SCHEMA = 'http://globalwordnet.github.io/schemas/WN-LMF-{v}.dtd'
DC_URI = {'1.0': 'http://purl.org/dc/elements/1.1/',
          '1.1': 'https://globalwordnet.github.io/schemas/dc/',
          '1.2': 'https://globalwordnet.github.io/schemas/dc/',
          '1.3': 'https://globalwordnet.github.io/schemas/dc/'}
DC_ATTRS = ['contributor', 'coverage', 'creator', 'date', 'description', 'format', 'identifier',
            'publisher', 'relation', 'rights', 'source', 'subject', 'title', 'type']

# start tags whose attributes the library pre-scans with a regular expression
SCANNED = {'Lexicon', 'LexiconExtension', 'Extends'}


class Writer:
    def __init__(self, rng=None, surface='varied', scan_safe=True):
        """surface: 'plain' (one canonical form) | 'varied' (random equivalent forms).
        scan_safe: keep <Lexicon>/<LexiconExtension>/<Extends> start tags in the plain style
        (double quotes, both quote characters and '>' written as entities, no blanks around '=',
        no character references in id/version) - see DESIGN C20 / finding scan-surface-form."""
        self.r = rng or random.Random(0)
        self.varied = surface == 'varied'
        self.scan_safe = scan_safe
        self.out = []

    # ---------- escaping
    def attr(self, value, tagname):
        r = self.r
        safe = self.scan_safe and tagname in SCANNED
        s = str(value)
        if safe or not self.varied:
            q = '"'
        else:
            q = r.choice('"\'')
        buf = []
        for ch in s:
            if ch == '&':
                buf.append('&amp;')
            elif ch == '<':
                buf.append('&lt;')
            elif ch == '>':
                buf.append('&gt;' if (safe or not self.varied or r.random() < 0.5) else '>')
            elif ch == '"':
                if q == '"' or safe:
                    buf.append('&quot;')
                else:
                    buf.append('"')
            elif ch == "'":
                if q == "'" or safe:
                    buf.append('&apos;')
                else:
                    buf.append("'")
            elif ch in '\t\n\r':
                buf.append(f'&#{ord(ch)};' if not self.varied or r.random() < 0.5 else f'&#x{ord(ch):X};')
            elif ch == ' ' and self.varied and not safe and r.random() < 0.06:
                # a literal tab or line break inside an attribute value is a space after attribute-value normalisation
                # (a CR LF pair is one line break, hence one space)
                buf.append(r.choice(['\n', '\r\n', '\t']))
            elif self.varied and not safe and r.random() < 0.03:
                buf.append(r.choice([f'&#{ord(ch)};', f'&#x{ord(ch):x};']))
            else:
                buf.append(ch)
        return q + ''.join(buf) + q

    def text(self, value):
        """Text content; white space is added where the loader has to remove it again."""
        r = self.r
        s = str(value)
        if not self.varied:
            return s.replace('&', '&amp;').replace('<', '&lt;').replace('>', '&gt;')
        if s and ']]>' not in s and r.random() < 0.15:
            body = '<![CDATA[' + s + ']]>'
            return self._ws(0.3) + body + self._ws(0.3)
        buf = []
        for ch in s:
            if ch == '&':
                buf.append('&amp;')
            elif ch == '<':
                buf.append('&lt;')
            elif ch == '>':
                buf.append('&gt;')
            elif ch == ' ' and r.random() < 0.3:
                buf.append(r.choice(['  ', '\n', '\t', ' \n   ', '\r\n']))
            elif ch in '"\'' and r.random() < 0.3:
                buf.append('&quot;' if ch == '"' else '&apos;')
            elif ch != ' ' and r.random() < 0.03:
                buf.append(r.choice([f'&#{ord(ch)};', f'&#x{ord(ch):x};']))
            else:
                buf.append(ch)
        return self._ws(0.3) + ''.join(buf) + self._ws(0.3)

    def _ws(self, p):
        if self.r.random() < p:
            return self.r.choice([' ', '\n', '\n      ', '\t', '  '])
        return ''

    # ---------- tags
    def start(self, name, attrs, empty=False, indent=0):
        r = self.r
        items = [(k, v) for k, v in attrs if v is not None]
        safe = self.scan_safe and name in SCANNED
        if self.varied:
            r.shuffle(items)
        pad = '  ' * indent
        parts = [f'{pad}<{name}']
        for k, v in items:
            sep = ' '
            if self.varied and r.random() < 0.1:
                sep = r.choice(['\n' + pad + '    ', '  ', '\t'])
            eq = '='
            if self.varied and not safe and r.random() < 0.05:
                eq = r.choice([' = ', '= ', ' ='])
            parts.append(f'{sep}{k}{eq}{self.attr(v, name)}')
        if self.varied and r.random() < 0.1:
            parts.append(r.choice([' ', '\n' + pad]))
        parts.append('/>' if empty else '>')
        self.out.append(''.join(parts))

    def end(self, name, indent=0, inline=False):
        self.out.append(('' if inline else '  ' * indent) + f'</{name}>')

    def nl(self):
        r = self.r
        if self.varied and r.random() < 0.06:
            self.out.append(r.choice(['\n\n', '\n<!-- c -->\n', '\r\n', '\n  <!--x-->  \n']))
        else:
            self.out.append('\n')


def meta_attrs(meta):
    if not meta:
        return []
    out = []
    for k, v in meta.items():
        if k in DC_ATTRS:
            out.append((f'dc:{k}', v))
        else:
            out.append((k, v))
    return out


def _bool(v):
    return 'true' if v else 'false'


def dumps(resource, rng=None, surface='varied', scan_safe=True, header=None) -> bytes:
    w = Writer(rng, surface, scan_safe)
    v = resource['lmf_version']
    r = w.r
    if header is not None:
        w.out.append(header)
    else:
        decl = '<?xml version="1.0" encoding="UTF-8"?>'
        doctype = f'<!DOCTYPE LexicalResource SYSTEM "{SCHEMA.format(v=v)}">'
        if w.varied and r.random() < 0.2:
            decl = decl.replace('"', "'")
        if w.varied and r.random() < 0.2:
            doctype = doctype.replace('"', "'")
        if w.varied and r.random() < 0.2:
            decl += '  '
        if w.varied and r.random() < 0.2:
            doctype += ' '
        w.out.append(decl + '\n' + doctype + '\n')
    w.out.append(f'<LexicalResource xmlns:dc="{DC_URI[v]}">')
    w.nl()
    for lex in resource['lexicons']:
        _lexicon(w, lex, v)
    w.out.append('</LexicalResource>\n')
    return ''.join(w.out).encode('utf-8')


def _lexicon(w, lex, v):
    name = 'LexiconExtension' if lex.get('extends') else 'Lexicon'
    attrs = [(k, lex.get(k)) for k in ('id', 'label', 'language', 'email', 'license', 'version',
                                       'url', 'citation', 'logo')]
    attrs += meta_attrs(lex.get('meta'))
    w.start(name, attrs, indent=1)
    w.nl()
    if lex.get('extends'):
        d = lex['extends']
        w.start('Extends', [('id', d['id']), ('version', d['version']), ('url', d.get('url'))], empty=True, indent=2)
        w.nl()
    for d in lex.get('requires', []):
        w.start('Requires', [('id', d['id']), ('version', d['version']), ('url', d.get('url'))], empty=True, indent=2)
        w.nl()
    for e in lex.get('entries', []):
        _entry(w, e, v)
    for ss in lex.get('synsets', []):
        _synset(w, ss, v)
    for fr in lex.get('frames', []):
        _frame(w, fr, 2)
    w.end(name, 1)
    w.nl()


def _frame(w, fr, indent):
    attrs = [('id', fr.get('id')), ('subcategorizationFrame', fr['subcategorizationFrame'])]
    if fr.get('senses'):
        attrs.append(('senses', ' '.join(fr['senses'])))
    w.start('SyntacticBehaviour', attrs, empty=True, indent=indent)
    w.nl()


def _text_elem(w, name, attrs, text, indent):
    if text == '' and w.r.random() < 0.5:
        w.start(name, attrs, empty=True, indent=indent)
    elif w.varied and text and w.r.random() < 0.04:
        # xml:space="preserve": the content is taken as it stands (written without any padding here, so the value is
        # the same); the elements after it must be normalised again
        w.start(name, list(attrs) + [('xml:space', 'preserve')], indent=indent)
        w.out.append(str(text).replace('&', '&amp;').replace('<', '&lt;').replace('>', '&gt;'))
        w.end(name, inline=True)
    else:
        w.start(name, attrs, indent=indent)
        w.out.append(w.text(text))
        w.end(name, inline=True)
    w.nl()


def _form_children(w, f, indent):
    for p in f.get('pronunciations', []):
        attrs = [('variety', p.get('variety')), ('notation', p.get('notation')), ('audio', p.get('audio'))]
        if 'phonemic' in p:
            attrs.append(('phonemic', _bool(p['phonemic'])))
        _text_elem(w, 'Pronunciation', attrs, p['text'], indent)
    for t in f.get('tags', []):
        _text_elem(w, 'Tag', [('category', t['category'])], t['text'], indent)


def _entry(w, e, v):
    ext = e.get('external')
    name = 'ExternalLexicalEntry' if ext else 'LexicalEntry'
    attrs = [('id', e['id'])]
    if not ext:
        attrs += meta_attrs(e.get('meta'))
    w.start(name, attrs, indent=2)
    w.nl()
    lem = e.get('lemma')
    if lem:
        if lem.get('external'):
            lname, lattrs = 'ExternalLemma', []
        else:
            lname = 'Lemma'
            lattrs = [('writtenForm', lem['writtenForm']), ('script', lem.get('script')),
                      ('partOfSpeech', lem['partOfSpeech'])]
        if lem.get('pronunciations') or lem.get('tags'):
            w.start(lname, lattrs, indent=3)
            w.nl()
            _form_children(w, lem, 4)
            w.end(lname, 3)
        else:
            w.start(lname, lattrs, empty=True, indent=3)
        w.nl()
    for f in e.get('forms', []):
        if f.get('external'):
            fname, fattrs = 'ExternalForm', [('id', f['id'])]
        else:
            fname = 'Form'
            fattrs = [('id', f.get('id')), ('writtenForm', f['writtenForm']), ('script', f.get('script'))]
        if f.get('pronunciations') or f.get('tags'):
            w.start(fname, fattrs, indent=3)
            w.nl()
            _form_children(w, f, 4)
            w.end(fname, 3)
        else:
            w.start(fname, fattrs, empty=True, indent=3)
        w.nl()
    for s in e.get('senses', []):
        _sense(w, s, v)
    for fr in e.get('frames', []):
        _frame(w, fr, 3)
    w.end(name, 2)
    w.nl()


def _relation(w, name, rel, indent):
    attrs = [('target', rel['target']), ('relType', rel['relType'])] + meta_attrs(rel.get('meta'))
    w.start(name, attrs, empty=True, indent=indent)
    w.nl()


def _example(w, ex, indent):
    _text_elem(w, 'Example', [('language', ex.get('language'))] + meta_attrs(ex.get('meta')), ex['text'], indent)


def _sense(w, s, v):
    ext = s.get('external')
    name = 'ExternalSense' if ext else 'Sense'
    attrs = [('id', s['id'])]
    if not ext:
        attrs.append(('synset', s['synset']))
        attrs += meta_attrs(s.get('meta'))
        if 'lexicalized' in s:
            attrs.append(('lexicalized', _bool(s['lexicalized'])))
        attrs.append(('adjposition', s.get('adjposition')))
        if s.get('subcat'):
            attrs.append(('subcat', ' '.join(s['subcat'])))
    kids = s.get('relations') or s.get('examples') or s.get('counts')
    if not kids:
        w.start(name, attrs, empty=True, indent=3)
        w.nl()
        return
    w.start(name, attrs, indent=3)
    w.nl()
    for rel in s.get('relations', []):
        _relation(w, 'SenseRelation', rel, 4)
    for ex in s.get('examples', []):
        _example(w, ex, 4)
    for c in s.get('counts', []):
        w.start('Count', meta_attrs(c.get('meta')), indent=4)
        w.out.append(w._ws(0.3) + str(c['value']) + w._ws(0.3) if w.varied else str(c['value']))
        w.end('Count', inline=True)
        w.nl()
    w.end(name, 3)
    w.nl()


def _synset(w, ss, v):
    ext = ss.get('external')
    name = 'ExternalSynset' if ext else 'Synset'
    attrs = [('id', ss['id'])]
    if not ext:
        attrs.append(('ili', ss['ili']))
        attrs.append(('partOfSpeech', ss.get('partOfSpeech')))
        if 'lexicalized' in ss:
            attrs.append(('lexicalized', _bool(ss['lexicalized'])))
        if ss.get('members'):
            attrs.append(('members', ' '.join(ss['members'])))
        attrs.append(('lexfile', ss.get('lexfile')))
        attrs += meta_attrs(ss.get('meta'))
    kids = ss.get('definitions') or ss.get('ili_definition') or ss.get('relations') or ss.get('examples')
    if not kids:
        w.start(name, attrs, empty=True, indent=2)
        w.nl()
        return
    w.start(name, attrs, indent=2)
    w.nl()
    for d in ss.get('definitions', []):
        _text_elem(w, 'Definition', [('language', d.get('language')), ('sourceSense', d.get('sourceSense'))]
                   + meta_attrs(d.get('meta')), d['text'], 3)
    if ss.get('ili_definition'):
        d = ss['ili_definition']
        _text_elem(w, 'ILIDefinition', meta_attrs(d.get('meta')), d['text'], 3)
    for rel in ss.get('relations', []):
        _relation(w, 'SynsetRelation', rel, 3)
    for ex in ss.get('examples', []):
        _example(w, ex, 3)
    w.end(name, 2)
    w.nl()
