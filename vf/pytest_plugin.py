"""pytest plugin: run the repository's own tests with the harness' runtime contracts switched on.

    pytest -p vf.pytest_plugin /repo/tests        (VF_CONTRACT_OUT=<file> receives evaluation counts and violations)
"""
import json
import os


def pytest_configure(config):
    from vf.monitors import contracts
    contracts.install()


def pytest_sessionfinish(session, exitstatus):
    from vf.monitors import contracts
    out = os.environ.get('VF_CONTRACT_OUT')
    if out:
        with open(out, 'w') as f:
            json.dump({'evals': dict(contracts.EVALS), 'violations': contracts.VIOLATIONS, 'exitstatus': int(exitstatus)}, f)
