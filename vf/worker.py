"""One shard: runs a list of cases of one property in this process and writes a JSON result."""

import hashlib
import json
import sys
import time
import traceback
from collections import Counter
from pathlib import Path

from vf import env


class Recorder:
    """What the monitors of one shard observed."""

    def __init__(self):
        self.events = Counter()
        self.api = Counter()
        self.states = set()
        self.nontrivial = set()
        self.evaluations = 0
        self.violations = []
        self.harness_errors = []
        self.samples = []
        self.extra = {}
        self.case = None

    # monitors call these
    def event(self, name, n=1):
        self.events[name] += n

    def call(self, name, n=1):
        self.api[name] += n

    def state(self, value):
        if not isinstance(value, str):
            value = json.dumps(value, sort_keys=True, default=str)
        self.states.add(hashlib.blake2b(value.encode('utf-8', 'surrogatepass'), digest_size=8).hexdigest())

    def violation(self, key, message, witness=None):
        self.violations.append({'key': key, 'message': str(message)[:2000], 'witness': witness, 'case': self.case})

    def done(self, case_hash, nontrivial=True, sample=None):
        self.evaluations += 1
        if nontrivial:
            if not isinstance(case_hash, str):
                case_hash = json.dumps(case_hash, sort_keys=True, default=str)
            self.nontrivial.add(hashlib.blake2b(case_hash.encode('utf-8', 'surrogatepass'), digest_size=8).hexdigest())
        if sample is not None and len(self.samples) < 2:
            self.samples.append(sample)

    def add_extra(self, key, value):
        if isinstance(value, list):
            self.extra.setdefault(key, [])
            for x in value:
                if x not in self.extra[key]:
                    self.extra[key].append(x)
        elif isinstance(value, (int, float)):
            self.extra[key] = self.extra.get(key, 0) + value
        else:
            self.extra[key] = value


def in_repo_frame(tb) -> bool:
    """Did this exception come out of a call into the library under test?  True when, after the last frame that
    belongs to the harness, the traceback passes through a frame of the library (the exception itself may have been
    raised deeper, e.g. in the standard library called by the library)."""
    repo = str(env.REPO / 'wn')
    harness = str(env.HOME / 'vf')
    frames = []
    while tb is not None:
        frames.append(tb.tb_frame.f_code.co_filename)
        tb = tb.tb_next
    last_harness = max((i for i, fn in enumerate(frames) if fn.startswith(harness)), default=-1)
    return any(fn.startswith(repo) for fn in frames[last_harness + 1:])


def main():
    inp, out = Path(sys.argv[1]), Path(sys.argv[2])
    job = json.loads(inp.read_text())
    pid = job['prop']
    import importlib
    rec = Recorder()
    try:
        env.import_wn()
        env.quiet()
        driver = importlib.import_module(f'vf.props.{pid.lower()}')
        if hasattr(driver, 'setup'):
            driver.setup(rec, job['tier'], job['seed'])
    except Exception:
        rec.harness_errors.append('setup: ' + traceback.format_exc())
        job['cases'] = []
    t0 = time.time()
    for case in job['cases']:
        rec.case = case
        try:
            driver.run_case(case, rec)
        except env.StrayDatabase as exc:
            rec.violation('database-file-misplaced', str(exc))
            rec.evaluations += 1
        except Exception as exc:
            tb = traceback.format_exc()
            if in_repo_frame(exc.__traceback__) and not getattr(driver, 'REPO_EXC_IS_HARNESS', False):
                # the library raised where the harness only makes calls that the property
                # says must succeed (drivers catch every exception they regard as legitimate)
                rec.violation('unexpected-exception:' + type(exc).__name__,
                              f'{type(exc).__name__}: {exc}', {'traceback': tb[-3000:]})
                rec.evaluations += 1
            else:
                rec.harness_errors.append(tb)
        finally:
            try:
                env.close_pool()
            except Exception:
                pass
    if hasattr(driver, 'teardown'):
        try:
            driver.teardown(rec)
        except Exception:
            rec.harness_errors.append('teardown: ' + traceback.format_exc())
    res = {
        'events': dict(rec.events), 'api': dict(rec.api), 'states': sorted(rec.states),
        'nontrivial_hashes': sorted(rec.nontrivial), 'evaluations': rec.evaluations,
        'violations': rec.violations, 'harness_errors': rec.harness_errors,
        'samples': rec.samples, 'extra': rec.extra, 'wall': time.time() - t0,
    }
    tmp = out.with_suffix('.tmp')
    tmp.write_text(json.dumps(res, default=str))
    tmp.rename(out)


if __name__ == '__main__':
    main()
