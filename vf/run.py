"""Tier/seed handling, sharding over subprocesses, verdicts, evidence, known findings, replay.

    python -m vf.run C07 [--tier quick|thorough] [--replay FILE] [--jobs N] [--seed N]

Exit status: 0 held on everything observed (KNOWN-FINDING lines allowed),
             1 at least one unlisted violation (a VIOLATION line per mechanism),
             2 inconclusive (watchdog, harness error, monitors observed too little).
"""

import argparse
import importlib
import json
import os
import subprocess
import sys
import time
from collections import Counter
from pathlib import Path

from vf import env

LEVELS = {'C06': 'fault_enumeration'}


def load_driver(pid):
    return importlib.import_module(f'vf.props.{pid.lower()}')


def load_known():
    p = env.HOME / 'known_findings.json'
    if not p.exists():
        return []
    return json.loads(p.read_text())['findings']


def main(argv=None):
    ap = argparse.ArgumentParser()
    ap.add_argument('prop')
    ap.add_argument('--tier', default=os.environ.get('VERIF_TIER', 'quick'), choices=['quick', 'thorough'])
    ap.add_argument('--replay')
    ap.add_argument('--jobs', type=int, default=int(os.environ.get('VERIF_JOBS', '0')) or min(16, os.cpu_count() or 4))
    ap.add_argument('--seed', type=int, default=int(os.environ.get('VERIF_SEED', '0')))
    ap.add_argument('--limit', type=int, default=0, help='only the first N cases (debugging)')
    ap.add_argument('--keep-going', action='store_true')
    args = ap.parse_args(argv)
    pid = args.prop.upper()
    t0 = time.time()
    driver = load_driver(pid)

    if args.replay:
        data = json.loads(Path(args.replay).read_text())
        cases = [data['case']]
        args.jobs = 1
    else:
        cases = list(driver.plan(args.tier, args.seed))
        if args.limit:
            cases = cases[:args.limit]
    if not cases:
        print(f'INCONCLUSIVE property={pid} no cases planned')
        return 2

    jobs = max(1, min(args.jobs, len(cases)))
    work = env.mkdtemp('run')
    shards = [cases[i::jobs] for i in range(jobs)]
    procs = []
    timeout = getattr(driver, 'TIMEOUT', {}).get(args.tier, 1500 if args.tier == 'quick' else 6 * 3600)
    extra_env = dict(os.environ)
    extra_env.update(getattr(driver, 'ENV', {}))
    extra_env.setdefault('PYTHONHASHSEED', '0')
    for i, shard in enumerate(shards):
        inp = work / f'in{i}.json'
        out = work / f'out{i}.json'
        inp.write_text(json.dumps({'prop': pid, 'tier': args.tier, 'seed': args.seed, 'cases': shard}))
        cmd = [sys.executable] + list(getattr(driver, 'PYFLAGS', [])) + ['-m', 'vf.worker', str(inp), str(out)]
        log = open(work / f'log{i}.txt', 'wb')
        procs.append((subprocess.Popen(cmd, env=extra_env, stdout=log, stderr=subprocess.STDOUT), out, log, i))

    inconclusive = []
    results = []
    deadline = t0 + timeout
    for p, out, log, i in procs:
        try:
            rc = p.wait(timeout=max(1, deadline - time.time()))
        except subprocess.TimeoutExpired:
            p.kill()
            p.wait()
            inconclusive.append(f'shard {i} hit the wall-clock watchdog ({timeout}s)')
            rc = None
        log.close()
        if out.exists():
            try:
                results.append(json.loads(out.read_text()))
            except Exception as exc:  # truncated output
                inconclusive.append(f'shard {i}: unreadable result ({exc})')
        elif rc is not None:
            tail = (work / f'log{i}.txt').read_text(errors='replace')[-3000:]
            inconclusive.append(f'shard {i} died (rc={rc}): {tail}')

    # ---- aggregate
    events, api = Counter(), Counter()
    states, hashes = set(), set()
    evaluations = 0
    violations, harness_errors, samples = [], [], []
    extra = {}
    for r in results:
        events.update(r['events'])
        api.update(r['api'])
        states.update(r['states'])
        hashes.update(r['nontrivial_hashes'])
        evaluations += r['evaluations']
        violations.extend(r['violations'])
        harness_errors.extend(r['harness_errors'])
        samples.append(r['samples'])
        for k, v in r.get('extra', {}).items():
            if isinstance(v, list):
                extra.setdefault(k, [])
                for x in v:
                    if x not in extra[k]:
                        extra[k].append(x)
            elif isinstance(v, (int, float)):
                extra[k] = extra.get(k, 0) + v
            else:
                extra[k] = v
    for he in harness_errors:
        inconclusive.append('harness error: ' + he[-1500:])

    if hasattr(driver, 'finish'):
        # whole-run checks that need all shards (e.g. C16 cross-process comparison is done in-case; this is for floors)
        driver.finish(events, api, extra, violations)

    floors = getattr(driver, 'FLOORS', {}).get(args.tier, getattr(driver, 'FLOORS', {}).get('*', {}))
    if not args.replay and not args.limit:
        for key, minimum in floors.items():
            if events.get(key, 0) < minimum:
                inconclusive.append(f'monitor counter {key}={events.get(key, 0)} below floor {minimum}')

    # ---- classify violations against the committed known-findings list
    known = [k for k in load_known() if k['property'] == pid and k.get('status', 'known') == 'known']
    known_keys = {k['key']: k for k in known}
    printed_known = {}
    new = {}
    rep_dir = Path(os.environ.get('VERIF_REPLAYS', env.HOME / 'replays'))
    for v in violations:
        key = v['key']
        if key in known_keys:
            printed_known.setdefault(key, []).append(v)
        else:
            new.setdefault(key, []).append(v)

    for key, vs in printed_known.items():
        print(f'KNOWN-FINDING: property={pid} {key}: {known_keys[key]["what"]} (seen {len(vs)}x, e.g. {vs[0]["message"][:200]})')

    rc = 0
    replay_paths = []
    if new:
        rep_dir.mkdir(parents=True, exist_ok=True)
        for n, (key, vs) in enumerate(sorted(new.items())):
            v = vs[0]
            path = rep_dir / f'{pid}-{args.seed}-{n}.json'
            path.write_text(json.dumps({'property': pid, 'key': key, 'message': v['message'],
                                        'witness': v.get('witness'), 'case': v['case'],
                                        'occurrences': len(vs)}, indent=1, default=str))
            replay_paths.append(str(path))
            print(f'VIOLATION property={pid} replay={path} key={key} count={len(vs)} :: {v["message"][:600]}')
        rc = 1
    elif inconclusive:
        rc = 2
    for msg in inconclusive:
        print(f'INCONCLUSIVE property={pid} {msg}')

    wall = time.time() - t0
    # evidence describes the tree at /repo only: runs against a scratch copy (self-test of the checks) write none
    foreign = env.REPO != Path('/repo').resolve() or os.environ.get('VERIF_NO_EVIDENCE')
    if not args.replay and not args.limit and not foreign:
        level = LEVELS.get(pid, 'exploration')
        cov = {
            'evaluations': evaluations,
            'distinct_nontrivial': len(hashes),
            'rule': getattr(driver, 'RULE', ''),
            'samples': [x[0] for x in samples if x][:3] or [y for x in samples for y in x][:3],
            'monitor_events': dict(sorted(events.items())),
            'api_calls': dict(sorted(api.items())),
            'distinct_states': len(states),
            'shards': jobs,
            'known_findings_hit': {k: len(v) for k, v in printed_known.items()},
            'inconclusive': inconclusive,
        }
        if hasattr(driver, 'exhaustive'):
            cov['exhaustive'] = bool(driver.exhaustive(args.tier))
        cov.update({k: v for k, v in extra.items()})
        ev = {
            'property_id': pid, 'tier': args.tier, 'seed': args.seed, 'level': level,
            'coverage': cov,
            'assumptions': getattr(driver, 'ASSUMPTIONS', []),
            'wall_s': round(wall, 2),
            'violations': sum(len(v) for v in new.values()),
        }
        (env.HOME / 'evidence').mkdir(exist_ok=True)
        (env.HOME / 'evidence' / f'{pid}.json').write_text(json.dumps(ev, indent=1, default=str) + '\n')

    verdict = {0: 'held on what was observed', 1: 'VIOLATED', 2: 'inconclusive'}[rc]
    top = ', '.join(f'{k}={v}' for k, v in sorted(events.items())[:14])
    print(f'{pid} {args.tier} seed={args.seed}: {verdict}; cases={evaluations} distinct_nontrivial={len(hashes)} '
          f'states={len(states)} wall={wall:.1f}s; events: {top}')
    env.rmtree(work)
    return rc


if __name__ == '__main__':
    try:
        code = main()
    except SystemExit:
        raise
    except BaseException as exc:      # a crash of the harness is never a verdict about the property
        import traceback
        traceback.print_exc()
        print(f'INCONCLUSIVE harness crashed: {type(exc).__name__}: {exc}')
        code = 2
    sys.exit(code)
