"""Process-level environment: where the real code comes from, scratch space, fresh databases."""

import atexit
import os
import shutil
import sys
import tempfile
from pathlib import Path

HOME = Path(os.environ.get('VERIF_HOME', Path(__file__).resolve().parent.parent))
REPO = Path(os.environ.get('VERIF_REPO', '/repo')).resolve()

_scratch_roots = []


def scratch_base() -> Path:
    """A directory for throw-away data (ram disk when possible, honours TMPDIR)."""
    for cand in (os.environ.get('VERIF_TMP'), os.environ.get('TMPDIR'), '/dev/shm', tempfile.gettempdir()):
        if cand and os.path.isdir(cand) and os.access(cand, os.W_OK):
            return Path(cand)
    return Path(tempfile.gettempdir())


def mkdtemp(prefix='vf') -> Path:
    d = Path(tempfile.mkdtemp(prefix=prefix + '-', dir=str(scratch_base())))
    _scratch_roots.append(d)
    return d


def rmtree(d) -> None:
    shutil.rmtree(str(d), ignore_errors=True)
    try:
        _scratch_roots.remove(Path(d))
    except ValueError:
        pass


@atexit.register
def _sweep():
    for d in list(_scratch_roots):
        shutil.rmtree(str(d), ignore_errors=True)


def import_wn():
    """Import the real library and make sure it is the tree under test."""
    import wn  # noqa
    here = Path(wn.__file__).resolve()
    if REPO not in here.parents:
        raise RuntimeError(f'wn imported from {here}, expected under {REPO}')
    return wn


def close_pool():
    import wn
    for conn in list(wn._db.pool.values()):
        try:
            conn.close()
        except Exception:
            pass
    wn._db.pool.clear()


class StrayDatabase(Exception):
    """The library did not keep its database inside the data directory it was given (worker: a violation, not a harness error)."""


_fresh_count = [0]


class FreshDB:
    """Context manager: a brand new data directory (and database) for the library.

    Mirrors what the repository's own fixtures do: point ``wn.config.data_directory``
    somewhere else and drop the pooled connection.
    """

    def __init__(self, keep=False, init=True):
        self.keep = keep
        self.dir = None
        self.init = init

    def __enter__(self):
        import wn
        close_pool()
        self.root = mkdtemp('wndb')
        # the data directory's name is sometimes one a careless path-to-URI conversion would trip over
        _fresh_count[0] += 1
        names = ['data', 'data', 'my data', 'wn#1', 'caf\u00e9 %41', 'a?b&c=d', '100%', 'data']
        self.dir = self.root / names[_fresh_count[0] % len(names)]
        self.dir.mkdir()
        wn.config.data_directory = str(self.dir)
        if self.init:
            # create and initialise the database through a public read-only call, so that the
            # schema creation is not attributed to the first operation a monitor brackets
            wn.lexicons()
        return self

    @property
    def path(self) -> Path:
        return self.dir / 'wn.db'

    def __exit__(self, *exc):
        close_pool()
        stray = None
        if exc[0] is None:
            others = sorted(p.name for p in self.root.iterdir() if p != self.dir)
            if others or not (self.dir / 'wn.db').exists():
                stray = (f'data directory {str(self.dir)!r}: wn.db inside it: {(self.dir / "wn.db").exists()}; '
                         f'unexpected entries next to it: {others}')
        if not self.keep:
            rmtree(self.root)
        if stray:
            raise StrayDatabase(stray)
        return False


def use_db_dir(d):
    """Point the library at an existing data directory."""
    import wn
    close_pool()
    wn.config.data_directory = str(d)


def quiet():
    """Silence the library's logger / warnings noise in workers."""
    import logging
    logging.getLogger('wn').setLevel(logging.CRITICAL)
