"""Small helpers around the real library's entry points (no logic of the library is duplicated)."""

import random
import warnings

from vf import xmlw


def write_resource(res, directory, rng=None, name='f.xml', **kw):
    p = directory / name
    p.write_bytes(xmlw.dumps(res, rng or random.Random(0), **kw))
    return p


def add(path, progress=None):
    import wn
    wn.add(path, progress_handler=progress)


def wordnet(selection=None, expand=None, **kw):
    """Wordnet restricted to exact specifiers (list) or the default-mode Wordnet (None)."""
    import wn
    with warnings.catch_warnings():
        warnings.simplefilter('ignore')
        if selection is None:
            return wn.Wordnet(**kw)
        if expand is None:
            return wn.Wordnet(' '.join(selection), **kw)
        return wn.Wordnet(' '.join(selection), expand=' '.join(expand), **kw)


def default_expand(db, selection):
    """Documented default expand set of a restricted Wordnet: installed declared dependencies."""
    out = []
    for sp in selection:
        for r in db.lex[sp].doc.get('requires', []) or []:
            s2 = f"{r['id']}:{r['version']}"
            if s2 in db.lex and s2 not in out:
                out.append(s2)
    return out
