"""Deep comparison that reports the first differing path.

Expected values may contain *shape markers* where a statement leaves order open:

    Bag([...])            actual list must be a permutation
    Merge([[..],[..]])    actual list must be an order-preserving interleaving of the given lists
    SetOf([...])          actual list must have no duplicates and equal the set
    AnyOf([...])          actual must equal one of the alternatives
"""

import json


class Bag:
    def __init__(self, items):
        self.items = list(items)

    def __repr__(self):
        return f'Bag({self.items!r})'


class SetOf:
    def __init__(self, items):
        self.items = list(items)

    def __repr__(self):
        return f'SetOf({self.items!r})'


class Merge:
    def __init__(self, lists):
        self.lists = [list(x) for x in lists if x]

    def __repr__(self):
        return f'Merge({self.lists!r})'


class AnyOf:
    def __init__(self, alts):
        self.alts = list(alts)

    def __repr__(self):
        return f'AnyOf({self.alts!r})'


class GroupSeq:
    """Concatenation of groups; inside a group any order (ties the statement leaves open)."""

    def __init__(self, groups):
        self.groups = [list(g) for g in groups if g]

    def __repr__(self):
        return f'GroupSeq({self.groups!r})'


class OwnThenBorrowed:
    """A duplicate-free list: own targets (any order) then borrowed-only targets (any order)."""

    def __init__(self, own, borrowed):
        self.own = list(own)
        so = set(own)
        self.borrowed = [x for x in borrowed if x not in so]

    def __repr__(self):
        return f'OwnThenBorrowed({self.own!r}, {self.borrowed!r})'


class RelMap:
    """relation_map(): rows [name, source id, target id, lexicon, dc:type, metadata, target key];
    the first five are the dict key.  Rows with one key collapse to one of their candidates."""

    def __init__(self, rows):
        self.rows = rows

    def __repr__(self):
        return f'RelMap({self.rows!r})'


def _key(x):
    return json.dumps(jsonable(x), sort_keys=True, ensure_ascii=True, default=repr)


def jsonable(x):
    if isinstance(x, dict):
        return {str(k) if not isinstance(k, str) else k: jsonable(v) for k, v in x.items()}
    if isinstance(x, (list, tuple)):
        return [jsonable(v) for v in x]
    if isinstance(x, (set, frozenset)):
        return sorted((jsonable(v) for v in x), key=_key)
    if isinstance(x, Bag):
        return {'Bag': jsonable(x.items)}
    if isinstance(x, SetOf):
        return {'SetOf': jsonable(x.items)}
    if isinstance(x, Merge):
        return {'Merge': jsonable(x.lists)}
    if isinstance(x, AnyOf):
        return {'AnyOf': jsonable(x.alts)}
    if isinstance(x, GroupSeq):
        return {'GroupSeq': jsonable(x.groups)}
    if isinstance(x, OwnThenBorrowed):
        return {'own': jsonable(x.own), 'borrowed': jsonable(x.borrowed)}
    if isinstance(x, RelMap):
        return {'RelMap': jsonable(x.rows)}
    return x


def _is_merge(actual, lists):
    """Is ``actual`` an interleaving of ``lists`` keeping each list's order?  Elements of the expected
    lists may themselves contain shape markers, so equality is ``diff(...) is None``."""
    lists = [list(x) for x in lists]
    total = sum(len(x) for x in lists)
    if len(actual) != total:
        return False
    memo = {}
    eq = {}

    def same(i, j, pos):
        kk = (i, j, pos)
        if kk not in eq:
            eq[kk] = diff(lists[i][j], actual[pos]) is None
        return eq[kk]

    def go(pos, idx):
        if pos == total:
            return True
        kk = (pos, idx)
        if kk in memo:
            return memo[kk]
        ok = False
        for i, li in enumerate(lists):
            j = idx[i]
            if j < len(li) and same(i, j, pos):
                if go(pos + 1, idx[:i] + (j + 1,) + idx[i + 1:]):
                    ok = True
                    break
        memo[kk] = ok
        return ok

    return go(0, tuple(0 for _ in lists))


def diff(expected, actual, path=''):
    """None when equal, else (path, expected, actual)."""
    if isinstance(expected, AnyOf):
        for alt in expected.alts:
            if diff(alt, actual, path) is None:
                return None
        return (path, expected, actual)
    if isinstance(expected, Bag):
        if not isinstance(actual, (list, tuple)):
            return (path, expected, actual)
        if sorted(_key(x) for x in expected.items) != sorted(_key(x) for x in actual):
            return (path + '{bag}', expected.items, actual)
        return None
    if isinstance(expected, SetOf):
        if not isinstance(actual, (list, tuple)):
            return (path, expected, actual)
        ak = [_key(x) for x in actual]
        if len(set(ak)) != len(ak):
            return (path + '{duplicates}', expected.items, actual)
        if set(ak) != {_key(x) for x in expected.items}:
            return (path + '{set}', expected.items, actual)
        return None
    if isinstance(expected, Merge):
        if not isinstance(actual, (list, tuple)):
            return (path, expected, actual)
        if not _is_merge(list(actual), expected.lists):
            return (path + '{merge}', expected.lists, actual)
        return None
    if isinstance(expected, GroupSeq):
        if not isinstance(actual, (list, tuple)):
            return (path, expected, actual)
        if len(actual) != sum(len(g) for g in expected.groups):
            return (path + '{len}', expected, actual)
        pos = 0
        for g in expected.groups:
            part = list(actual[pos:pos + len(g)])
            if sorted(_key(x) for x in g) != sorted(_key(x) for x in part):
                return (path + '{order}', expected, actual)
            pos += len(g)
        return None
    if isinstance(expected, OwnThenBorrowed):
        if not isinstance(actual, (list, tuple)):
            return (path, expected, actual)
        ak = [_key(x) for x in actual]
        if len(set(ak)) != len(ak):
            return (path + '{duplicates}', expected, actual)
        own = {_key(x) for x in expected.own}
        bor = {_key(x) for x in expected.borrowed}
        if set(ak) != own | bor:
            return (path + '{set}', expected, actual)
        last_own = max((i for i, x in enumerate(ak) if x in own), default=-1)
        first_bor = min((i for i, x in enumerate(ak) if x in bor), default=len(ak))
        if last_own > first_bor:
            return (path + '{own-before-borrowed}', expected, actual)
        return None
    if isinstance(expected, RelMap):
        if not isinstance(actual, (list, tuple)):
            return (path, expected, actual)
        cands = {}
        for row in expected.rows:
            cands.setdefault(_key(row[:5]), []).append(_key(row[5:]))
        seen = set()
        for row in actual:
            kk = _key(list(row[:5]))
            if kk in seen:
                return (path + '{duplicate-key}', expected, actual)
            seen.add(kk)
            if kk not in cands:
                return (path + '{surplus-relation}', expected.rows, row)
            if _key(list(row[5:])) not in cands[kk]:
                return (path + '{relation-value}', [r for r in expected.rows if _key(r[:5]) == kk], row)
        if seen != set(cands):
            missing = [r for r in expected.rows if _key(r[:5]) not in seen]
            return (path + '{missing-relation}', missing[:3], actual)
        return None
    if isinstance(expected, dict):
        if not isinstance(actual, dict):
            return (path, expected, actual)
        ek, ak = set(expected), set(actual)
        if ek != ak:
            missing = sorted(map(str, ek - ak))[:5]
            surplus = sorted(map(str, ak - ek))[:5]
            return (path + '{keys}', {'missing_in_actual': missing}, {'surplus_in_actual': surplus})
        for k in expected:
            d = diff(expected[k], actual[k], f'{path}/{k}')
            if d:
                return d
        return None
    if isinstance(expected, (list, tuple)):
        if not isinstance(actual, (list, tuple)):
            return (path, expected, actual)
        if len(expected) != len(actual):
            return (path + '{len}', expected, actual)
        for i, (e, a) in enumerate(zip(expected, actual)):
            d = diff(e, a, f'{path}[{i}]')
            if d:
                return d
        return None
    if isinstance(expected, float) and isinstance(actual, (int, float)) and not isinstance(actual, bool):
        if expected == actual:
            return None
        if expected != expected and actual != actual:
            return None
        scale = max(abs(expected), abs(actual), 1e-300)
        if abs(expected - actual) / scale <= 1e-9:
            return None
        return (path, expected, actual)
    if type(expected) is bool or type(actual) is bool:
        if (type(expected) is bool) != (type(actual) is bool) or expected != actual:
            return (path, expected, actual)
        return None
    if expected != actual:
        return (path, expected, actual)
    # str subclasses (wn.Form) compare equal to str; fine
    return None


def fmt(d, limit=700):
    if d is None:
        return 'equal'
    p, e, a = d
    return f'at {p}: expected {json.dumps(jsonable(e), ensure_ascii=True, default=repr)[:limit]} got {json.dumps(jsonable(a), ensure_ascii=True, default=repr)[:limit]}'
