from mk import *
import wn, traceback, sqlite3
from wn import lmf
# C03: export
body = '''<LexicalEntry id="a-e1"><Lemma writtenForm="x" partOfSpeech="v"/>
<Sense id="a-s1" synset="a-ss1" subcat="a-fr1"><Example dc:source="exsrc">ex</Example></Sense><Sense id="a-s2" synset="a-ss2"/></LexicalEntry>
<Synset id="a-ss1" ili="in" partOfSpeech="v"><ILIDefinition>ili def here</ILIDefinition></Synset>
<Synset id="a-ss2" ili="in" partOfSpeech="v"/>
<Synset id="a-ss3" ili="i1" partOfSpeech="v"><ILIDefinition>spurious</ILIDefinition></Synset>
<SyntacticBehaviour id="a-fr1" subcategorizationFrame="frame"/>
<SyntacticBehaviour id="a-fr2" subcategorizationFrame="frame-unused"/>'''
fresh()
addtext(doc(lex('a', body)))
print('frames', [s.frames() for s in wn.senses()])
print('ilis', [(ss.id, ss.ili, ss.ili and ss.ili.status, ss.ili and ss.ili.definition()) for ss in wn.synsets()])
for v in ['1.0','1.1']:
    out = write('', f'exp{v}.xml')
    wn.export(wn.lexicons(), out, version=v)
    print(open(out).read())
