from mk import *
import wn, sqlite3, collections, sys
fresh()
conn = wn._db.connect()
trace = []
conn.set_trace_callback(trace.append)
auth = collections.Counter()
names = {getattr(sqlite3, n): n for n in dir(sqlite3) if n.startswith('SQLITE_') and isinstance(getattr(sqlite3,n), int) and n not in ('SQLITE_OK','SQLITE_DENY','SQLITE_IGNORE')}
def authorizer(action, a1, a2, db, trig):
    auth[(names.get(action, action), a1, trig)] += 1
    return sqlite3.SQLITE_OK
conn.set_authorizer(authorizer)
wn.add('/repo/tests/data/mini-lmf-1.0.xml', progress_handler=None)
kinds = collections.Counter(s.split(None,1)[0].upper() for s in trace)
print('trace kinds', kinds)
print([s for s in trace if s.split(None,1)[0].upper() in ('BEGIN','COMMIT','ROLLBACK','PRAGMA')])
print('auth write tables', sorted({(a,t) for (a,t,_),c in auth.items() if a in ('SQLITE_INSERT','SQLITE_UPDATE','SQLITE_DELETE')}))
trace.clear(); auth.clear()
wn.add('/repo/tests/data/mini-lmf-1.1.xml', progress_handler=None)
trace.clear(); auth.clear()
wn.remove('test-en', progress_handler=None)
print([s[:80] for s in trace if not s.lstrip().upper().startswith(('SELECT','WITH'))])
print('auth on remove', sorted({(a,t,tr) for (a,t,tr),c in auth.items() if a in ('SQLITE_INSERT','SQLITE_UPDATE','SQLITE_DELETE')}))
# read-only battery
trace.clear()
before = conn.total_changes
w = wn.Wordnet(); [s.relations() for s in w.synsets()]; [x.senses() for x in w.words()]
print('writes during reads', [s for s in trace if not s.lstrip().upper().startswith(('SELECT','WITH'))], conn.total_changes-before, len(trace))
