# prototype of the C18 must/may reference against wn.validate on random (often broken) lexicons given as lmf dicts
import random, sys, collections, itertools
from wn import validate as V
from wn.constants import SENSE_RELATIONS, SENSE_SYNSET_RELATIONS, SYNSET_RELATIONS, REVERSE_RELATIONS
rng = random.Random(int(sys.argv[1]) if len(sys.argv)>1 else 0)
assert all(REVERSE_RELATIONS.get(v)==k for k,v in REVERSE_RELATIONS.items()), 'not an involution'
TYPES = ['hypernym','hyponym','instance_hypernym','antonym','also','other','similar','derivation','domain_topic','bogus','exemplifies','pertainym']
def gen():
    nss = rng.randint(0,5); ne = rng.randint(0,5)
    ssids = [rng.choice(['ss0','ss1','ss2','ss3','ss4','e0','s0']) if rng.random()<0.15 else f'ss{i}' for i in range(nss)]
    synsets=[]; sense_ids=[]
    entries=[]
    for i in range(ne):
        eid = f'e{rng.randint(0,4)}' if rng.random()<0.15 else f'e{i}'
        senses=[]
        for j in range(rng.randint(0,3)):
            sid = f's{rng.randint(0,5)}' if rng.random()<0.2 else f's{i}{j}'
            senses.append({'id': sid, 'synset': rng.choice(ssids+['missing']) if ssids else 'missing', 'meta': None, 'relations': []})
            sense_ids.append(sid)
        e = {'id': eid, 'lemma': {'writtenForm': rng.choice(['a','b','c']), 'partOfSpeech': rng.choice('nv')}, 'senses': senses, 'meta': None}
        if rng.random()<0.3: e['forms'] = [{'writtenForm':'f', 'id': rng.choice(['f1', eid, 'ss0'])}]
        entries.append(e)
    texts = ['d1','d2','', 'same','same']
    for sid in ssids:
        ss = {'id': sid, 'ili': rng.choice(['', 'in', 'i1', 'i2', 'i3']), 'meta': None, 'relations': []}
        if rng.random()<0.85: ss['partOfSpeech'] = rng.choice('nv')
        if rng.random()<0.4: ss['ili_definition'] = {'text': rng.choice(['x','']), 'meta': None}
        ss['definitions'] = [{'text': rng.choice(texts), 'meta': None} for _ in range(rng.randint(0,2))]
        ss['examples'] = [{'text': rng.choice(['ex','']), 'meta': None} for _ in range(rng.randint(0,2))]
        synsets.append(ss)
    alltargets = sense_ids + ssids + ['missing']
    for e in entries:
        for s in e['senses']:
            for _ in range(rng.randint(0,3)):
                s['relations'].append({'relType': rng.choice(TYPES), 'target': rng.choice(alltargets+[s['id']]), 'meta': rng.choice([None, {'type':'t1'}, {'type':'t2'}])})
    for ss in synsets:
        for _ in range(rng.randint(0,3)):
            ss['relations'].append({'relType': rng.choice(TYPES), 'target': rng.choice(alltargets+[ss['id']]), 'meta': rng.choice([None, {'type':'t1'}])})
    lex = {'id': rng.choice(['lx','e0','ss0']), 'version':'1','label':'l','language':'en','email':'e','license':'l','meta':None,'entries':entries,'synsets':synsets}
    if rng.random()<0.3: lex['frames']=[{'id': rng.choice(['fr1','s0','lx']), 'subcategorizationFrame':'f'}]
    return lex
def ref(lex):
    E=lex['entries']; SS=lex['synsets']
    senses=[(e,s) for e in E for s in e['senses']]
    sids=collections.Counter(s['id'] for e,s in senses); ssid=collections.Counter(ss['id'] for ss in SS); eids=collections.Counter(e['id'] for e in E)
    must={}; may={}
    allids=[lex['id']]+[e['id'] for e in E]+[s['id'] for e,s in senses]+[ss['id'] for ss in SS]+[f['id'] for e in E for f in e.get('forms',[]) if f.get('id')]+[f['id'] for f in lex.get('frames',[]) if f.get('id')]
    c=collections.Counter(allids); must['E101']={k for k,v in c.items() if v>1}; may['E101']=set()
    must['W201']={e['id'] for e in E if not e['senses']}; may['W201']=set()
    must['W202']={s['id'] for e in E for s in e['senses'] if sum(1 for t in e['senses'] if t['synset']==s['synset'])>1}; may['W202']=set()
    pairs=collections.defaultdict(list)
    for i,e in enumerate(E):
        for s in e['senses']: pairs[(e['lemma']['writtenForm'], s['synset'])].append(i)
    must['W203']={f for (f,ss),idx in pairs.items() if len(set(idx))>1}; may['W203']={f for (f,ss),idx in pairs.items() if len(idx)>1}
    must['E204']={s['id'] for e,s in senses if s['synset'] not in ssid}; may['E204']=set()
    used={s['synset'] for e,s in senses}
    must['W301']={ss['id'] for ss in SS if ss['id'] not in used}; may['W301']=set()
    ic=collections.Counter(ss['ili'] for ss in SS if ss['ili'] and ss['ili']!='in')
    must['W302']={ss['id'] for ss in SS if ic.get(ss['ili'],0)>1}; may['W302']=set()
    must['W303']={ss['id'] for ss in SS if ss['ili']=='in' and 'ili_definition' not in ss}; may['W303']={ss['id'] for ss in SS if ss['ili']=='in' and not ss.get('ili_definition',{}).get('text')}
    must['W304']={ss['id'] for ss in SS if ss['ili'] not in ('','in') and ss.get('ili_definition',{}).get('text')}; may['W304']={ss['id'] for ss in SS if ss['ili'] not in ('','in') and 'ili_definition' in ss}
    must['W305']={ss['id'] for ss in SS if any(d['text'].strip()=='' for d in ss['definitions'])}; may['W305']=set()
    must['W306']={ss['id'] for ss in SS if any(d['text'].strip()=='' for d in ss['examples'])}; may['W306']=set()
    dtext=collections.defaultdict(list)
    for i,ss in enumerate(SS):
        for d in ss['definitions']: dtext[d['text']].append(i)
    must['W307']={SS[i]['id'] for t,idx in dtext.items() if t.strip() and len(set(idx))>1 for i in idx}
    may['W307']={SS[i]['id'] for t,idx in dtext.items() if len(idx)>1 for i in idx}
    srel=[(s,r) for e,s in senses for r in s['relations']]; ssrel=[(ss,r) for ss in SS for r in ss['relations']]
    must['E401']={s['id'] for s,r in srel if r['target'] not in sids and r['target'] not in ssid}|{ss['id'] for ss,r in ssrel if r['target'] not in ssid}; may['E401']=set()
    must['W402']={s['id'] for s,r in srel if (r['target'] in sids and r['relType'] not in SENSE_RELATIONS) or (r['target'] not in sids and r['target'] in ssid and r['relType'] not in SENSE_SYNSET_RELATIONS)}|{ss['id'] for ss,r in ssrel if r['target'] in ssid and r['relType'] not in SYNSET_RELATIONS}
    may['W402']={s['id'] for s,r in srel if (r['target'] in sids and r['relType'] not in SENSE_RELATIONS) or (r['target'] in ssid and r['relType'] not in SENSE_SYNSET_RELATIONS)}|{ss['id'] for ss,r in ssrel if r['relType'] not in SYNSET_RELATIONS}
    key=lambda x,r:(x['id'],r['relType'],r['target'],(r.get('meta') or {}).get('type'))
    c=collections.Counter([key(s,r) for s,r in srel]+[key(ss,r) for ss,r in ssrel]); must['W403']={k[0] for k,v in c.items() if v>1}; may['W403']=set()
    reg={(s['id'],r['relType'],r['target']) for s,r in srel if r['target'] in sids}|{(ss['id'],r['relType'],r['target']) for ss,r in ssrel}
    miss={(t,s) for s,ty,t in reg if ty in REVERSE_RELATIONS and (t,REVERSE_RELATIONS[ty],s) not in reg}
    allid=set(sids)|set(ssid)
    must['W404']={t for t,s in miss if t in allid}; may['W404']={t for t,s in miss}
    pos={}
    for ss in SS: pos.setdefault(ss['id'], ss.get('partOfSpeech'))
    must['W501']={ss['id'] for ss,r in ssrel if r['relType']=='hypernym' and r['target'] in ssid and ss.get('partOfSpeech') and pos[r['target']] and ss.get('partOfSpeech')!=pos[r['target']] and ssid[r['target']]==1}
    may['W501']={ss['id'] for ss,r in ssrel if r['relType'] in ('hypernym','instance_hypernym')}
    must['W502']={x['id'] for x,r in srel+ssrel if x['id']==r['target']}; may['W502']=set()
    return must, may
stats=collections.Counter(); shown=0
for n in range(3000):
    lex=gen()
    try: rep=V.validate(lex, progress_handler=None)
    except Exception as e:
        stats[f'raise {type(e).__name__}']+=1
        # retry without W501
        try: rep=V.validate(lex, select=[c for c in V._codes if c!='W501'], progress_handler=None)
        except Exception as e2: stats[f'raise2 {type(e2).__name__}']+=1; continue
    must,may=ref(lex)
    for code,r in rep.items():
        got=set(r['items'])
        if not must[code] <= got: stats[code+' miss']+=1; (shown<6) and print(code,'MISS',must[code]-got); shown+=1
        if not got <= (must[code]|may[code]): stats[code+' spurious']+=1; (shown<6) and print(code,'SPURIOUS',got-must[code]-may[code]); shown+=1
        if got: stats[code+' nonempty']+=1
print(dict(sorted(stats.items())))
