from mk import *
import wn
# default mode: own-lexicon synsets sharing an ILI borrow each other's relations
A = lex('a', '<Synset id="a1" ili="i1" partOfSpeech="n"><SynsetRelation relType="hypernym" target="a3"/></Synset><Synset id="a2" ili="i1" partOfSpeech="n"/><Synset id="a3" ili="i3" partOfSpeech="n"/><Synset id="a4" ili="in" partOfSpeech="n"/>')
B = lex('b', '<Synset id="b1" ili="i1" partOfSpeech="n"><SynsetRelation relType="also" target="b3"/></Synset><Synset id="b3" ili="i3" partOfSpeech="n"/><Synset id="b5" ili="i5" partOfSpeech="n"/>', lang='fr')
fresh(); addtext(doc(A)); addtext(doc(B))
for name, w in [('default', wn.Wordnet()), ("lang=en", wn.Wordnet(lang='en')), ("a expand=''", wn.Wordnet('a', expand='')), ("a expand=b", wn.Wordnet('a', expand='b')), ("a expand=*", wn.Wordnet('a', expand='*')), ("a b", wn.Wordnet('a b'))]:
    print(name, 'expanded', [l.id for l in w.expanded_lexicons()])
    for sid in ['a1','a2']:
        s = w.synset(sid)
        print('   ', sid, {k:[(t.id, t.lexicon().id if t._id else None) for t in v] for k,v in s.relations().items()})
# translate symmetry / proposed
w = wn.Wordnet()
print([ (s.id, [t.id for t in s.translate(lexicon='b')], [t.id for t in s.translate(lang='fr')], [t.id for t in s.translate()]) for s in wn.Wordnet('a').synsets()])
print([ (s.id, [t.id for t in s.translate(lexicon='a')]) for s in wn.Wordnet('b').synsets()])
