from mk import *
import wn, json
from xml.sax.saxutils import quoteattr, escape
S = ['a"b', "it's", '<&>', 'tab\there', 'nl\nhere', ' lead', 'trail ', 'dbl  sp', '😀𝄞', 'é́', 'ＡＢ', '\u0085x y', ']]>', '情報', 'a\rb']
def qa(s):
    return quoteattr(s)  # escapes \n \r \t as char refs
def mk():
    ents = ''
    for i, s in enumerate(S):
        ents += (f'<LexicalEntry id="e{i}" dc:source={qa(s)} note={qa(s)}><Lemma writtenForm={qa(s)} partOfSpeech="n" script={qa(s)}>'
                 f'<Pronunciation variety={qa(s)} notation={qa(s)} audio={qa(s)}>{escape(s)}</Pronunciation><Tag category={qa(s)}>{escape(s)}</Tag></Lemma>'
                 f'<Form id="f{i}" writtenForm={qa(s+"x")}/>'
                 f'<Sense id="s{i}" synset="ss{i}" dc:rights={qa(s)}><Example language={qa(s)} dc:creator={qa(s)}>{escape(s)}</Example><Count dc:date={qa(s)}>{i}</Count></Sense></LexicalEntry>')
    sss = ''.join(f'<Synset id="ss{i}" ili="" partOfSpeech="n" lexfile={qa(s)} dc:subject={qa(s)}><Definition language={qa(s)} dc:title={qa(s)}>{escape(s)}</Definition><Example>{escape(s)}</Example></Synset>' for i,s in enumerate(S))
    return doc(lex('h', ents+sss, extra=f'url={qa(S[0])} citation={qa(S[2])} logo={qa(S[3])} dc:description={qa(S[4])}'))
fresh(); addtext(mk())
w = wn.Wordnet('h')
bad = []
norm = lambda t: ' '.join(t.split())
for i, s in enumerate(S):
    wd = w.word(f'e{i}'); se = w.sense(f's{i}'); ss = w.synset(f'ss{i}')
    lem = wd.lemma()
    checks = {
      'lemma': (str(lem), s), 'script': (lem.script, s), 'form': (str(wd.forms()[1]), s+'x'),
      'wmeta': (wd.metadata(), {'source': s, 'note': s}),
      'pron': ([(p.value,p.variety,p.notation,p.audio) for p in lem.pronunciations()], [(norm(s),s,s,s)]),
      'tag': ([(t.tag,t.category) for t in lem.tags()], [(norm(s), s)]),
      'smeta': (se.metadata(), {'rights': s}), 'ex': (se.examples(), [norm(s)]),
      'cnt': ([ (int(c), c.metadata()) for c in se.counts()], [(i, {'date': s})]),
      'lexfile': (ss.lexfile(), s), 'ssmeta': (ss.metadata(), {'subject': s}), 'def': (ss.definition(), norm(s)), 'ssex': (ss.examples(), [norm(s)]),
    }
    for k,(got,exp) in checks.items():
        if got != exp: bad.append((i, k, got, exp))
lx = w.lexicons()[0]
print((lx.url, lx.citation, lx.logo, lx.metadata()) == (S[0], S[2], S[3], {'description': S[4]}))
print('mismatches', len(bad)); [print(b) for b in bad[:12]]
# lookups by hostile form
print([ [x.id for x in w.words(s)] for s in S][:15])
