from mk import *
import wn, copy
from wn import lmf
base = lex('b', '''<LexicalEntry id="b-e1"><Lemma writtenForm="x" partOfSpeech="n"/><Form id="b-f1" writtenForm="xs"/><Sense id="b-s1" synset="b-ss1"/></LexicalEntry><Synset id="b-ss1" ili="i1" partOfSpeech="n"/>''')
ext = lex('x', '''<Requires id="r" version="2" url="http://r"/>
<LexicalEntry id="x-e9" note="new entry"><Lemma writtenForm="new" partOfSpeech="v"><Pronunciation>nju</Pronunciation></Lemma><Sense id="x-s9" synset="b-ss1" subcat="x-fr"/></LexicalEntry>
<ExternalLexicalEntry id="b-e1"><ExternalLemma><Pronunciation variety="GB" phonemic="false">eks</Pronunciation><Tag category="c">ext-tag</Tag></ExternalLemma><ExternalForm id="b-f1"><Tag category="c">ext-ftag</Tag></ExternalForm><Form writtenForm="xen" script="Latn"/>
<Sense id="x-s1" synset="x-ss1" dc:source="s"/><ExternalSense id="b-s1"><SenseRelation relType="also" target="x-s1" dc:type="k"/><Example dc:source="q">ext example</Example><Count note="n">7</Count></ExternalSense></ExternalLexicalEntry>
<ExternalLexicalEntry id="b-e1b"/>
<Synset id="x-ss1" ili="in" partOfSpeech="n" members="x-s1" lexfile="noun.x"><Definition sourceSense="x-s1">d</Definition><ILIDefinition note="m">prop</ILIDefinition></Synset>
<ExternalSynset id="b-ss1"><Definition language="fr" sourceSense="b-s1">ext def</Definition><SynsetRelation relType="hypernym" target="x-ss1" note="z"/><Example language="en">ext ss example</Example></ExternalSynset>
<SyntacticBehaviour id="x-fr" subcategorizationFrame="NP V"/>''', ext=('b','1'))
ext = ext.replace('<Extends id="b" version="1"/>', '<Extends id="b" version="1" url="http://b"/>')
p = write(doc(base + ext))
r = lmf.load(p, progress_handler=None)
def diff(a,b,path=''):
    if type(a)!=type(b): print(path, repr(a), repr(b)); return
    if isinstance(a, dict):
        for k in set(a)|set(b):
            if k not in a: print(path+'/'+k, 'ABSENT-left', b[k])
            elif k not in b: print(path+'/'+k, 'ABSENT-right', a[k])
            else: diff(a[k],b[k],path+'/'+k)
    elif isinstance(a, list):
        if len(a)!=len(b): print(path,'len',len(a),len(b))
        for i,(x,y) in enumerate(zip(a,b)): diff(x,y,f'{path}[{i}]')
    elif a!=b: print(path, repr(a), repr(b))
for v in ['1.1','1.2','1.3']:
    r['lmf_version']=v; out = p.parent/f'o{v}.xml'; lmf.dump(r, out)
    r2 = lmf.load(out, progress_handler=None)
    print(v, 'EQUAL' if r2==r else 'DIFF'); diff(r, r2)
    out2 = p.parent/f'o{v}b.xml'; lmf.dump(r2, out2); print('  fixed point', out.read_bytes()==out2.read_bytes())
# and add it + observe a few ext things
from obs import observe
fresh(); wn.add(p, progress_handler=None)   # ext skipped? base in same file
print([l.specifier() for l in wn.lexicons()])
wn.add(p, progress_handler=None); print([l.specifier() for l in wn.lexicons()])
o = observe(wn.Wordnet('b x'))
print(o['words'][('b:1','b-e1')]); print(o['senses'][('b:1','b-s1')]); print(o['synsets'][('b:1','b-ss1')]); print(o['synsets'][('x:1','x-ss1')])
