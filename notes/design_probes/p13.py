from mk import *
import wn, sqlite3, gzip, lzma, tarfile, shutil, os, tempfile, hashlib, warnings
from pathlib import Path
from wn import lmf
warnings.simplefilter('error', ResourceWarning)
src10 = Path('/repo/tests/data/mini-lmf-1.0.xml'); src11 = Path('/repo/tests/data/mini-lmf-1.1.xml')
def dump():
    conn = sqlite3.connect(str(wn.config.database_path))
    out = {}
    for (t,) in conn.execute("select name from sqlite_master where type='table'").fetchall():
        out[t] = conn.execute(f'select * from {t}').fetchall()
    conn.close()
    return out
work = Path(tempfile.mkdtemp(prefix='routes'))
routes = {}
routes['xml'] = src10
gz = work/'a.xml.gz'; gz.write_bytes(gzip.compress(src10.read_bytes())); routes['gz'] = gz
xz = work/'a.xml.xz'; xz.write_bytes(lzma.compress(src10.read_bytes())); routes['xz'] = xz
pkg = work/'pkg'; pkg.mkdir(); shutil.copy(src10, pkg/'mini.xml'); (pkg/'README.md').write_text('hi'); (pkg/'LICENSE').write_text('lic'); (pkg/'citation.bib').write_text('@x{}'); routes['pkg'] = pkg
col = work/'col'; (col/'p1').mkdir(parents=True); shutil.copy(src10, col/'p1'/'mini.xml'); (col/'README').write_text('x'); routes['col'] = col
for name, mode, what in [('t1.tar','w',src10), ('t2.tar.gz','w:gz',pkg), ('t3.tar.xz','w:xz',col)]:
    with tarfile.open(work/name, mode) as t: t.add(what, arcname=Path(what).name)
    routes[name] = work/name
ref = None
tmpbefore = set(os.listdir(tempfile.gettempdir()))
for name, p in routes.items():
    fresh()
    h = hashlib.sha1(p.read_bytes()).hexdigest() if p.is_file() else None
    try:
        wn.add(p, progress_handler=None)
        d = dump()
        if ref is None: ref = d
        print(name, 'same' if d==ref else 'DIFF', [l.specifier() for l in wn.lexicons()], 'unchanged' if (h is None or h == hashlib.sha1(p.read_bytes()).hexdigest()) else 'MODIFIED')
        d1 = dump(); wn.add(p, progress_handler=None); print('   re-add no-op:', dump()==d1)
    except Exception as e:
        import traceback; traceback.print_exc()
# in-memory
fresh()
r = lmf.load(src10, progress_handler=None)
import copy; r0 = copy.deepcopy(r)
wn.add_lexical_resource(r, progress_handler=None)
print('in-memory', 'same' if dump()==ref else 'DIFF', 'resource unchanged' if r==r0 else 'RESOURCE MODIFIED')
r = lmf.load(src11, progress_handler=None); r0 = copy.deepcopy(r)
wn.add_lexical_resource(r, progress_handler=None)
print('in-memory 1.1', 'resource unchanged' if r==r0 else 'RESOURCE MODIFIED')
# ext w/o base
fresh(); wn.add(src11, progress_handler=None); print([l.specifier() for l in wn.lexicons()])
left = set(os.listdir(tempfile.gettempdir())) - tmpbefore
print('tmp leftovers', [x for x in left if not x.startswith(('wnp','wnx','routes'))])
