from mk import *
import wn, traceback, sqlite3, sys, math
from wn import lmf, validate
# C18: hypernym to missing synset
t = doc(lex('a', '<LexicalEntry id="a-e1"><Lemma writtenForm="x" partOfSpeech="n"/><Sense id="a-s1" synset="a-ss1"/></LexicalEntry><Synset id="a-ss1" ili="" partOfSpeech="n"><SynsetRelation relType="hypernym" target="a-missing"/></Synset>'))
p = write(t)
r = lmf.load(p, progress_handler=None)
try:
    rep = validate.validate(r['lexicons'][0], progress_handler=None)
    print({k:v['items'] for k,v in rep.items() if v['items']})
except Exception as e:
    print('validate EXC', type(e).__name__, e)
for sel in [('E',), ('E401',), ('W501',), ('W',)]:
    try:
        rep = validate.validate(r['lexicons'][0], select=sel, progress_handler=None)
        print(sel, {k:v['items'] for k,v in rep.items() if v['items']})
    except Exception as e:
        print(sel, 'validate EXC', type(e).__name__, e)
fresh()
try:
    wn.add(p, progress_handler=None); print('add accepted!')
except Exception as e: print('add EXC', type(e).__name__, e)
print(wn.lexicons())
# C06: progress handler raising at k-th callback
from wn.util import ProgressHandler
class Boom(Exception): pass
def mk(k):
    class H(ProgressHandler):
        n = 0
        def update(self, n=1, force=False):
            H.n += 1
            if H.n == k: raise Boom(k)
            super().update(n, force)
        def flash(self, message):
            H.n += 1
            if H.n == k: raise Boom(k)
    return H
def dump():
    conn = sqlite3.connect(str(wn.config.database_path))
    out = {}
    for (t,) in conn.execute("select name from sqlite_master where type='table'").fetchall():
        out[t] = conn.execute(f'select * from {t}').fetchall()
    conn.close()
    return out
good = '/repo/tests/data/mini-lmf-1.0.xml'
fresh()
wn.lexicons()
d0 = dump()
bad = []
K = 0
for k in range(1, 400):
    try:
        wn.add(good, progress_handler=mk(k))
        K = k; break
    except Boom:
        d = dump()
        if d != d0: bad.append(k)
print('callbacks until success', K, 'dirty after failure at', bad[:20])
print(wn.lexicons())
