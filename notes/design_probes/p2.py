from mk import *
import wn, traceback
from wn import lmf
# C02 round trip probing
body = '''<LexicalEntry id="a-e1" dc:source="src&amp;1"><Lemma writtenForm="x &quot;q&quot; &lt;t&gt; &#9;tab" partOfSpeech="n" script="Latn"><Pronunciation variety="v" notation="n" phonemic="false" audio="au">pr</Pronunciation><Tag category="c">t</Tag></Lemma>
<Form id="a-f1" writtenForm="xs" script="Latn"><Tag category="c2">t2</Tag></Form>
<Sense id="a-s1" synset="a-ss1" lexicalized="false" adjposition="a" subcat="a-fr1" dc:identifier="idf" confidenceScore="0.5"><SenseRelation relType="other" target="a-s1" dc:type="foo" note="n"/><Example language="en" dc:source="exsrc">ex  ample</Example><Count dc:source="cs">3</Count></Sense></LexicalEntry>
<Synset id="a-ss1" ili="in" partOfSpeech="n" lexicalized="false" members="a-s1" lexfile="noun.act" note="nn"><Definition language="en" sourceSense="a-s1" dc:source="ds">def</Definition><ILIDefinition dc:source="ils">ili def</ILIDefinition><SynsetRelation relType="hypernym" target="a-ss1" dc:type="t"/><Example dc:source="ssx">sx</Example></Synset>
<SyntacticBehaviour id="a-fr1" subcategorizationFrame="frame"/>'''
t = doc(lex('a', body, extra='url="u" citation="c" logo="lg" dc:publisher="pub"') )
p = write(t)
r = lmf.load(p, progress_handler=None)
import pprint
for v in ['1.1','1.3']:
    r['lmf_version'] = v
    out = p.parent/f'out{v}.xml'
    lmf.dump(r, out)
    r2 = lmf.load(out, progress_handler=None)
    print(v, 'equal' if r2 == r else 'DIFF')
    if r2 != r:
        def diff(a,b,path=''):
            if type(a)!=type(b): print(path, repr(a), repr(b)); return
            if isinstance(a, dict):
                for k in set(a)|set(b):
                    if k not in a: print(path+'/'+k, 'MISSING-left', b[k])
                    elif k not in b: print(path+'/'+k, 'MISSING-right', a[k])
                    else: diff(a[k],b[k],path+'/'+k)
            elif isinstance(a, list):
                if len(a)!=len(b): print(path,'len',len(a),len(b))
                for i,(x,y) in enumerate(zip(a,b)): diff(x,y,f'{path}[{i}]')
            elif a!=b: print(path, repr(a), repr(b))
        diff(r,r2)
    out2 = p.parent/f'out{v}b.xml'
    lmf.dump(r2, out2)
    print(' fixed point', out.read_bytes()==out2.read_bytes())
print(open(out).read())
