from mk import *
import wn
from wn import lmf
def L(attrs_first, label):
    return HDR.format(v='1.1') + f'<LexicalResource xmlns:dc="https://globalwordnet.github.io/schemas/dc/">\n<Lexicon {attrs_first} label={label}\n   language="en" email="a@b" license="lic"><Synset id="a-ss1" ili="" partOfSpeech="n"/></Lexicon>\n</LexicalResource>\n'
cases = {
 'gt in label, id after': L('', '"A > B" id="a" version="1"'),
 'gt in label, id before': L('id="a" version="1"', '"A > B"'),
 'single-quoted id': L("id='a' version='1'", '"plain"'),
 'spaces around =': L('id = "a" version = "1"', '"plain"'),
 'newline in tag': L('id="a"\n\tversion="1"', '"plain"'),
 'label with id= inside': L('id="a" version="1"', '"my id=&quot;zz&quot; x"'),
 'label mentions version="9" in single quotes': L('id="a" version="1"', "'has version=\"9\" inside'"),
 'empty label': L('id="a" version="1"', '""'),
 'charref in version': L('id="a" version="1&#46;0"', '"plain"'),
}
for k, t in cases.items():
    p = write(t)
    try: ld = [(x['id'], x['version'], x['label']) for x in lmf.load(p, progress_handler=None)['lexicons']]
    except Exception as e: ld = f'EXC {type(e).__name__} {e}'
    try: sc = [(x['id'], x['version'], x['label']) for x in lmf.scan_lexicons(p)]
    except Exception as e: sc = f'EXC {type(e).__name__} {e}'
    fresh()
    try: wn.add(p, progress_handler=None); ad = [l.specifier() for l in wn.lexicons()]
    except Exception as e: ad = f'EXC {type(e).__name__} {e}'
    print(f'{k:45} load={ld}  scan={sc}  add={ad}')
