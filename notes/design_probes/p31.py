from mk import *
import wn, wn.ic, wn.similarity as S, wn.taxonomy as T
def ent(i,pos): return f'<LexicalEntry id="e{i}"><Lemma writtenForm="w{i}" partOfSpeech="{pos}"/><Sense id="s{i}" synset="ss{i}"/></LexicalEntry>'
body = ent(0,'s')+ent(1,'a')+ent(2,'s')+ent(3,'n')+ent(4,'v')
body += '<Synset id="ss0" ili="" partOfSpeech="s"><SynsetRelation relType="hypernym" target="ss1"/></Synset><Synset id="ss1" ili="" partOfSpeech="a"/><Synset id="ss2" ili="" partOfSpeech="s"><SynsetRelation relType="hypernym" target="ss1"/></Synset>'
body += '<Synset id="ss3" ili="" partOfSpeech="n"><SynsetRelation relType="hypernym" target="ss4"/></Synset><Synset id="ss4" ili="" partOfSpeech="v"/>'
fresh(); addtext(doc(lex('g', body)))
w = wn.Wordnet('g')
def t(f):
    try: return f()
    except Exception as e: return f'EXC {type(e).__name__}: {e}'
print('compute a/s', t(lambda: wn.ic.compute(['w0','w1','w2'], w)))
ic = wn.ic.compute(['w0','w1','w2'], w)
s0,s1,s2 = (w.synset(f'ss{i}') for i in range(3))
for name,f in [('res',S.res),('jcn',S.jcn),('lin',S.lin)]:
    print(name, 's,s', t(lambda: f(s0,s2,ic)), '| a,s', t(lambda: f(s1,s0,ic)), '| s,a', t(lambda: f(s0,s1,ic)), '| s,s same', t(lambda: f(s0,s0,ic)))
print('ic(s0)', t(lambda: wn.ic.information_content(s0, ic)), 'path', S.path(s0,s2), 'wup', S.wup(s0,s2), 'lch', t(lambda: S.lch(s0,s2,T.taxonomy_depth(w,'a'))), T.taxonomy_depth(w,'s'))
print('compute cross-pos', t(lambda: wn.ic.compute(['w3'], w)))
