from mk import *
import wn, itertools, sys, collections
import wn.taxonomy as T
N = 3
pairs = [(i,j) for i in range(N) for j in range(N)]
def lexicon(gid, edges):
    id = f'g{gid}'
    out = ''
    for i in range(N):
        rels = ''.join(f'<SynsetRelation relType="hypernym" target="{id}-{p}"/>' for c,p in edges if c==i)
        rels += ''.join(f'<SynsetRelation relType="hyponym" target="{id}-{c}"/>' for c,p in edges if p==i)
        out += f'<Synset id="{id}-{i}" ili="" partOfSpeech="n">{rels}</Synset>'
    return lex(id, out)
graphs = []
for mask in range(1<<len(pairs)):
    graphs.append([pairs[b] for b in range(len(pairs)) if mask>>b & 1])
fresh()
addtext(doc('\n'.join(lexicon(g, e) for g,e in enumerate(graphs))))
# reference
def ref(edges):
    up = collections.defaultdict(list)
    for c,p in edges: up[c].append(p)
    def paths(x):
        # maximal simple chains from x (excluding x); first step excludes self loop
        res = []
        def rec(path, visited):
            nxt = [p for p in up[path[-1]] if p not in visited]
            if not nxt: res.append(path[1:]); return
            for p in nxt: rec(path+[p], visited|{p})
        first = [p for p in up[x] if p != x]
        for p in first: rec([x,p], {x,p})
        return res
    def anc(x):
        seen={x}; st=[x]
        while st:
            u=st.pop()
            for p in up[u]:
                if p not in seen: seen.add(p); st.append(p)
        return seen
    def dist(x):
        d={x:0}; q=[x]
        while q:
            u=q.pop(0)
            for p in up[u]:
                if p not in d: d[p]=d[u]+1; q.append(p)
        return d
    return paths, anc, dist
bad = collections.Counter(); examples = {}
cyc = 0
for g, edges in enumerate(graphs):
    w = wn.Wordnet(f'g{g}:1', expand='')
    ss = [w.synset(f'g{g}-{i}') for i in range(N)]
    paths, anc, dist = ref(edges)
    for i in range(N):
        got = sorted([int(s.id.split('-')[1]) for s in p] for p in T.hypernym_paths(ss[i]))
        exp = sorted(paths(i))
        if got != exp: bad['paths']+=1; examples.setdefault('paths',(edges,i,got,exp))
    for i in range(N):
        for j in range(N):
            com = anc(i)&anc(j)
            gotc = sorted(int(s.id.split('-')[1]) for s in T.common_hypernyms(ss[i], ss[j]))
            if gotc != sorted(com): bad['common']+=1; examples.setdefault('common',(edges,i,j,gotc,sorted(com)))
            di, dj = dist(i), dist(j)
            try:
                sp = [int(s.id.split('-')[1]) for s in T.shortest_path(ss[i], ss[j])]
            except wn.Error: sp = None
            if com:
                best = min(di[c]+dj[c] for c in com)
                if sp is None or len(sp)!=best: bad['splen']+=1; examples.setdefault('splen',(edges,i,j,sp,best))
                else:
                    full=[i]+sp
                    ok = all(((a,b) in edges or (b,a) in edges) for a,b in zip(full,full[1:])) and (full[-1]==j)
                    if not ok: bad['spgenuine']+=1; examples.setdefault('spgenuine',(edges,i,j,sp))
                    if (not sp) != (i==j): bad['spempty']+=1; examples.setdefault('spempty',(edges,i,j,sp))
            else:
                if sp is not None: bad['sp-should-error']+=1
print('graphs', len(graphs), 'disagreements', dict(bad))
for k,v in examples.items(): print(k, v)
