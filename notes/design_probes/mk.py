import os, tempfile, shutil, sys
from pathlib import Path
HDR = '<?xml version="1.0" encoding="UTF-8"?>\n<!DOCTYPE LexicalResource SYSTEM "http://globalwordnet.github.io/schemas/WN-LMF-{v}.dtd">\n'
DC = {'1.0':'http://purl.org/dc/elements/1.1/'}
def doc(body, v='1.1'):
    dc = DC.get(v, 'https://globalwordnet.github.io/schemas/dc/')
    return HDR.format(v=v) + f'<LexicalResource xmlns:dc="{dc}">\n{body}\n</LexicalResource>\n'
def lex(id, body, version='1', lang='en', ext=None, extra=''):
    tag = 'LexiconExtension' if ext else 'Lexicon'
    e = f'<Extends id="{ext[0]}" version="{ext[1]}"/>' if ext else ''
    return f'<{tag} id="{id}" label="L {id}" language="{lang}" email="a@b" license="lic" version="{version}" {extra}>{e}{body}</{tag}>'
def fresh():
    import wn
    d = tempfile.mkdtemp(prefix='wnp')
    for c in list(wn._db.pool.values()): c.close()
    wn._db.pool.clear()
    wn.config.data_directory = d
    return d
def write(text, name='f.xml'):
    d = tempfile.mkdtemp(prefix='wnx')
    p = Path(d)/name
    p.write_text(text, encoding='utf-8')
    return p
def addtext(text):
    import wn
    p = write(text)
    wn.add(p, progress_handler=None)
    return p
