# feasibility: sys.monitoring LINE failpoints restricted to wn/_add.py, raising at k-th line event
from mk import *
import wn, sys, sqlite3, time
import wn._add as A
mon = sys.monitoring
TOOL = 3
mon.use_tool_id(TOOL, 'verif-failpoint')
class Inject(Exception): pass
state = {'n':0, 'k':None, 'lines':set()}
def on_line(code, lineno):
    if code.co_filename != A.__file__:
        return mon.DISABLE
    state['n'] += 1
    state['lines'].add(lineno)
    if state['k'] is not None and state['n'] == state['k']:
        raise Inject(f'{code.co_name}:{lineno}')
mon.register_callback(TOOL, mon.events.LINE, on_line)
def dump():
    conn = sqlite3.connect(str(wn.config.database_path)); out = {}
    for (t,) in conn.execute("select name from sqlite_master where type='table'").fetchall():
        out[t] = conn.execute(f'select * from {t}').fetchall()
    conn.close(); return out
fresh(); wn.lexicons(); d0 = dump()
mon.set_events(TOOL, mon.events.LINE)
state['n']=0; state['k']=None
t=time.time(); wn.add('/repo/tests/data/mini-lmf-1.0.xml', progress_handler=None); total = state['n']
mon.set_events(TOOL, 0)
print('line events in one add:', total, 'distinct lines', len(state['lines']), 'time', round(time.time()-t,3))
wn.remove('*', progress_handler=None)
d0 = dump()
dirty=[]; where=set(); t=time.time()
ks = list(range(1,total,7))
for k in ks:
    state['n']=0; state['k']=k
    mon.set_events(TOOL, mon.events.LINE); mon.restart_events()
    try:
        wn.add('/repo/tests/data/mini-lmf-1.0.xml', progress_handler=None); r='ok'
    except Inject as e: r=str(e); where.add(r.split(':')[0])
    finally: mon.set_events(TOOL, 0)
    if r!='ok' and dump()!=d0: dirty.append((k,r))
    if r=='ok': wn.remove('*', progress_handler=None)
print('injections', len(ks), 'dirty', dirty[:5], 'functions hit', sorted(where), 'time', round(time.time()-t,2))
