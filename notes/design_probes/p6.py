from mk import *
import wn, traceback, sqlite3, sys, math
import wn.taxonomy, wn.similarity, wn.ic
def graph(id, edges, n, pos='n', extra_pos=None):
    # nodes 0..n-1 ; edges (child,parent) hypernym
    ents = ''.join(f'<LexicalEntry id="{id}-e{i}"><Lemma writtenForm="w{i}" partOfSpeech="{(extra_pos or {}).get(i,pos)}"/><Sense id="{id}-s{i}" synset="{id}-ss{i}"/></LexicalEntry>' for i in range(n))
    sss = ''
    for i in range(n):
        rels = ''.join(f'<SynsetRelation relType="hypernym" target="{id}-ss{p}"/>' for c,p in edges if c==i)
        rels += ''.join(f'<SynsetRelation relType="hyponym" target="{id}-ss{c}"/>' for c,p in edges if p==i)
        sss += f'<Synset id="{id}-ss{i}" ili="" partOfSpeech="{(extra_pos or {}).get(i,pos)}">{rels}</Synset>'
    return lex(id, ents+sss)
fresh()
# two LCS at different distance:  a=0,b=1 ; 0->2->4(root) ; 0->3 ; 1->2 ; 1->5->3 ; 3->6->7(root) hmm
# design: lcs candidates c1, c2 both same max depth but different distances
# 0->2, 1->2, 2->r(4)  (c1=2 depth1; dist 1+1)
# 0->5->3, 1->6->3, 3->r2(7) (c2=3 depth 1; dist 2+2)
edges=[(0,2),(1,2),(2,4),(0,5),(5,3),(1,6),(6,3),(3,7)]
addtext(doc(graph('g', edges, 8)))
w = wn.Wordnet('g')
a, b = w.synset('g-ss0'), w.synset('g-ss1')
print('lch', wn.taxonomy.lowest_common_hypernyms(a,b), wn.taxonomy.lowest_common_hypernyms(b,a))
print('wup', wn.similarity.wup(a,b), wn.similarity.wup(b,a))
print('sp', wn.taxonomy.shortest_path(a,b), wn.taxonomy.shortest_path(b,a))
print('common', wn.taxonomy.common_hypernyms(a,b))
# diamond IC
fresh()
addtext(doc(graph('d', [(0,1),(0,2),(1,3),(2,3)], 4)))
w = wn.Wordnet('d')
f = wn.ic.compute(['w0','w0','w1'], w, distribute_weight=False, smoothing=1.0)
print(f['n'])
ss3 = w.synset('d-ss3')
print('prob root', wn.ic.synset_probability(ss3, f), 'ic', wn.ic.information_content(ss3, f))
# cycle
fresh()
addtext(doc(graph('c', [(0,1),(1,2),(2,0),(3,0),(3,3)], 4)))
w = wn.Wordnet('c')
for i in range(4):
    s = w.synset(f'c-ss{i}')
    print(i, 'paths', s.hypernym_paths(), 'min', s.min_depth(), 'max', s.max_depth(), 'closure', list(s.closure('hypernym')))
print('roots', wn.taxonomy.roots(w), 'leaves', wn.taxonomy.leaves(w), 'depth', wn.taxonomy.taxonomy_depth(w,'n'))
print('sp 3->2', wn.taxonomy.shortest_path(w.synset('c-ss3'), w.synset('c-ss2')), wn.taxonomy.shortest_path(w.synset('c-ss2'), w.synset('c-ss3')))
print('ic on cycle', wn.ic.compute(['w3'], w)['n'])
