from mk import *
import wn
from wn import lmf
good = open('/repo/tests/data/mini-lmf-1.1.xml', encoding='utf-8').read()
def rep(a,b,n=1):
    assert a in good, a
    return good.replace(a,b,n)
def tryload(text):
    p = write(text)
    try: r = lmf.load(p, progress_handler=None); out='ok'
    except Exception as e: out=f'EXC {type(e).__name__}: {e}'
    fresh()
    try: wn.add(p, progress_handler=None); out += ' | add ok ' + str(wn.lexicons())
    except Exception as e: out += f' | add EXC {type(e).__name__}: {e}'
    return out
lem = '<Lemma partOfSpeech="n" writtenForm="情報" script="Jpan" />'
# base for ext missing -> ext skipped; fine
print('dup lemma', tryload(rep(lem, lem+lem)))
print('missing lemma pos', tryload(rep(lem, '<Lemma writtenForm="情報" script="Jpan" />')))
print('missing writtenForm', tryload(rep(lem, '<Lemma partOfSpeech="n" script="Jpan" />')))
print('no lemma', tryload(rep(lem, '')))
print('dup Extends', tryload(rep('<Extends id="test-en" version="1" />', '<Extends id="test-en" version="1" /><Extends id="test-en" version="1" />')))
print('missing relType', tryload(rep(' relType="pertainym"', '')))
print('missing tag category', tryload(rep('<Lemma partOfSpeech="n" writtenForm="事例" />', '<Lemma partOfSpeech="n" writtenForm="事例"><Tag>x</Tag></Lemma>')))
print('missing synset ili', tryload(rep(' ili="i67447"', '')))
print('Count non-int', tryload(rep('<Sense id="test-ja-情報-n-0001-01" synset="test-ja-0001-n" />', '<Sense id="test-ja-情報-n-0001-01" synset="test-ja-0001-n"><Count>abc</Count></Sense>')))
print('LexicalResource nested', tryload(rep('<Requires id="test-en" version="1" />', '<LexicalResource/>')))
print('Synset inside entry', tryload(rep('<Sense id="test-ja-情報-n-0001-01" synset="test-ja-0001-n" />', '<Sense id="test-ja-情報-n-0001-01" synset="test-ja-0001-n" /><Synset id="zz" ili=""/>')))
print('missing frame attr', tryload(rep('subcategorizationFrame="Somebody ----s something"', '')))
