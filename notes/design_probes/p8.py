from mk import *
import wn, traceback, sqlite3, sys, math, warnings
# C12: E (en) has chain e0 -> e1 -> e2 -> e3 (hypernym), ILIs i0..i3.  L has l0 (i0), l3 (i3) only; plus two synsets for i3.
E = lex('en', ''.join(f'<Synset id="en-ss{i}" ili="i{i}" partOfSpeech="n">' + (f'<SynsetRelation relType="hypernym" target="en-ss{i+1}"/>' if i<3 else '') + '</Synset>' for i in range(4))
   + '<Synset id="en-noili" ili="" partOfSpeech="n"><SynsetRelation relType="hypernym" target="en-ss0"/></Synset>'
   + '<Synset id="en-x" ili="i0" partOfSpeech="n"><SynsetRelation relType="hypernym" target="en-noili"/><SynsetRelation relType="also" target="en-ss3"/></Synset>')
L = lex('l', '<Synset id="l-ss0" ili="i0" partOfSpeech="n"><SynsetRelation relType="similar" target="l-ss3a"/></Synset><Synset id="l-ss3a" ili="i3" partOfSpeech="n"/><Synset id="l-ss3b" ili="i3" partOfSpeech="n"/>', lang='xx', extra='')
L = L.replace('<Synset id="l-ss0"', '<Requires id="en" version="1"/><Requires id="zz" version="9"/><Synset id="l-ss0"', 1)
fresh()
addtext(doc(E)); addtext(doc(L))
with warnings.catch_warnings(record=True) as ws:
    warnings.simplefilter('always')
    w = wn.Wordnet('l')
    print('warnings', [str(x.message) for x in ws], 'expanded', w.expanded_lexicons())
s = w.synset('l-ss0')
print('relations', s.relations())
print('get_related', s.get_related())
rm = s.relation_map()
print('relation_map', [(r.name, r.source_id, r.target_id, r._lexicon, t.id, t._ili) for r,t in rm.items()])
print('hypernyms', s.hypernyms(), [h._ili for h in s.hypernyms()])
print('closure', [(x.id, x._ili) for x in s.closure('hypernym')])
print('paths', [[(x.id,x._ili) for x in p] for p in s.hypernym_paths()])
h = s.hypernyms()[0]
print('inferred hypernyms', [(x.id,x._ili) for x in h.hypernyms()])
w2 = wn.Wordnet('l', expand='')
print('expand empty', w2.synset('l-ss0').relations())
w3 = wn.Wordnet()
print('default', w3.synset('l-ss0').relations(), w3.expanded_lexicons())
