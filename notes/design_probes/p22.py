# feasibility of vmabort: proxy connection forwarding set_progress_handler with n=1; abort at VM step k
from mk import *
import wn, sqlite3
import wn._add as A
from wn.util import ProgressHandler
class Proxy:
    def __init__(self, c, n): self._c = c; self._n = n
    def set_progress_handler(self, h, n): return self._c.set_progress_handler(h, self._n if h else 0)
    def __enter__(self): return self._c.__enter__()
    def __exit__(self, *a): return self._c.__exit__(*a)
    def __getattr__(self, k): return getattr(self._c, k)
real_connect = A.connect
class Abort(Exception): pass
def handler(k):
    class H(ProgressHandler):
        calls = 0
        def update(self, n=1, force=False):
            H.calls += 1
            if H.calls == k: raise Abort(k)
    return H
def dump():
    conn = sqlite3.connect(str(wn.config.database_path)); out = {}
    for (t,) in conn.execute("select name from sqlite_master where type='table'").fetchall():
        out[t] = conn.execute(f'select * from {t}').fetchall()
    conn.close(); return out
fresh()
wn.add('/repo/tests/data/mini-lmf-1.0.xml', progress_handler=None); wn.add('/repo/tests/data/mini-lmf-1.1.xml', progress_handler=None)
d0 = dump()
A.connect = lambda: Proxy(real_connect(), 5)
res = {}
import sys, io
for k in range(1, 3000, 13):
    H = handler(k)
    err = io.StringIO(); old = sys.stderr; sys.stderr = err
    try:
        wn.remove('test-en', progress_handler=H); out = 'completed'
    except Exception as e: out = type(e).__name__
    finally: sys.stderr = old
    same = dump() == d0
    res.setdefault((out, same), []).append(k)
    if out == 'completed': break
A.connect = real_connect
for key, ks in res.items(): print(key, len(ks), ks[:4], '...', ks[-2:])
print(H.calls)
