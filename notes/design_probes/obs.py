import wn
def observe(w):
    out = {}
    out['lexicons'] = [dict(spec=l.specifier(), label=l.label, lang=l.language, email=l.email, lic=l.license, url=l.url, cit=l.citation, logo=l.logo, meta=l.metadata() or {},
                            req={k:(v.specifier() if v else None) for k,v in l.requires().items()}, ext=(l.extends().specifier() if l.extends() else None)) for l in w.lexicons()]
    out['words'] = {}
    for wd in w.words():
        out['words'][(wd.lexicon().specifier(), wd.id)] = dict(pos=wd.pos, meta=wd.metadata() or {},
            forms=[dict(f=str(f), id=f.id, script=f.script, tags=[(t.tag,t.category) for t in f.tags()], prons=[(p.value,p.variety,p.notation,p.phonemic,p.audio) for p in f.pronunciations()]) for f in wd.forms()],
            senses=[s.id for s in wd.senses()])
    out['senses'] = {}
    for s in w.senses():
        out['senses'][(s.lexicon().specifier(), s.id)] = dict(meta=s.metadata() or {}, ex=s.examples(), cnt=[(int(c), c.metadata() or {}) for c in s.counts()], frames=sorted(s.frames()),
            adj=s.adjposition(), lexd=s.lexicalized(),
            rel=sorted((r.name, r.target_id, r.subtype or '', repr(sorted(r.metadata().items()))) for r in s.relation_map()),
            ssrel=sorted((n, t.id) for n, ts in [('*', s.get_related_synsets('*'))] for t in ts))
    out['synsets'] = {}
    for ss in w.synsets():
        ili = ss.ili
        out['synsets'][(ss.lexicon().specifier(), ss.id)] = dict(pos=ss.pos, ili=(ili.id, ili.status, ili.definition()) if ili else None, defn=ss.definition(), ex=ss.examples(),
            lexfile=ss.lexfile(), lexd=ss.lexicalized(), meta=ss.metadata() or {}, members=[s.id for s in ss.senses()],
            rel=sorted((r.name, r.target_id, r.subtype or '', repr(sorted(r.metadata().items()))) for r in ss.relation_map()))
    return out
def diff(a,b,path=''):
    if type(a)!=type(b): return [(path, a, b)]
    if isinstance(a, dict):
        out=[]
        for k in sorted(set(a)|set(b), key=repr):
            if k not in a: out.append((f'{path}/{k}', '<absent>', b[k]))
            elif k not in b: out.append((f'{path}/{k}', a[k], '<absent>'))
            else: out += diff(a[k],b[k],f'{path}/{k}')
        return out
    if isinstance(a, list):
        if len(a)!=len(b): return [(path, a, b)]
        out=[]
        for i,(x,y) in enumerate(zip(a,b)): out += diff(x,y,f'{path}[{i}]')
        return out
    return [] if a==b else [(path,a,b)]
