from mk import *
import wn, traceback, sqlite3, sys, math, warnings, gzip, lzma, tarfile, shutil, os
from wn import lmf
# C19
fresh()
L = lex('a', '<Synset id="a-ss1" ili="i1" partOfSpeech="n"><ILIDefinition>from lexicon</ILIDefinition></Synset><Synset id="a-ss2" ili="i2" partOfSpeech="n"/><Synset id="a-ss3" ili="in" partOfSpeech="n"><ILIDefinition>proposed def</ILIDefinition></Synset><Synset id="a-ss4" ili="i9" partOfSpeech="n"/>')
ili = write('ILI\tstatus\tdefinition\ni1\tactive\tdef one\ni2\tdeprecated\t\ni3\tprovisional\tdef 3\ni4\n', 'ili.tsv')
def obs():
    return sorted((i.id or '', i.status, i.definition()) for i in wn.ilis()), [(s.id, s.ili and s.ili.id, s.ili and s.ili.status) for s in wn.synsets()]
addtext(doc(L)); print(obs())
wn.add(ili, progress_handler=None); o1 = obs(); print(o1)
wn.add(ili, progress_handler=None); print('idempotent', obs()==o1)
fresh()
try:
    wn.add(ili, progress_handler=None); addtext(doc(L)); o2 = obs(); print('order-indep', o2==o1); print(o2)
except Exception as e: traceback.print_exc()
print([ (i.id,i.status) for i in wn.ilis(status='active')], [ (i.id,i.status) for i in wn.ilis(status='presupposed')], wn.Wordnet().ilis('proposed'))
print('all ilis in db', sqlite3.connect(str(wn.config.database_path)).execute('select * from ilis').fetchall())
# lowercase header & no status col
ili2 = write('ili\tdefinition\ni1\tdd\n', 'ili2.tsv')
wn.add(ili2, progress_handler=None); print(obs()[0])
