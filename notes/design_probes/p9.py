from mk import *
import wn, traceback, sqlite3, sys, math, warnings
from wn.morphy import Morphy
def ent(id, lemma, pos, forms=(), ss=None):
    fs = ''.join(f'<Form writtenForm="{f}"/>' for f in forms)
    return f'<LexicalEntry id="{id}"><Lemma writtenForm="{lemma}" partOfSpeech="{pos}"/>{fs}<Sense id="{id}-s" synset="{ss or "m-ss-"+pos}"/></LexicalEntry>'
body = ent('e1','Résumé','n') + ent('e2','resume','v') + ent('e3','RESUME','n') + ent('e4','wolf','n',['wolves']) + ent('e5','wolve','v') + ent('e6','es','n') + ent('e7','San José','n') + ent('e8','ox','n',['oxen','OXEN']) + ent('e9','s','n') + ent('e10','big','a') + ent('e11','bigg','s')
body += ''.join(f'<Synset id="m-ss-{p}" ili="" partOfSpeech="{p}"/>' for p in 'nvas')
fresh()
addtext(doc(lex('m', body)))
for kw in [dict(), dict(normalizer=None), dict(search_all_forms=False)]:
    w = wn.Wordnet('m', **kw)
    print(kw)
    for q in ['resume','Résumé','RESUME','résumé','Resume','wolves','oxen','Oxen','san jose','San Jose','es','s']:
        print('  ', repr(q), [x.id for x in w.words(q)], [x.id for x in w.words(q, pos='n')], [x.id for x in w.senses(q)], [x.id for x in w.synsets(q)])
w = wn.Wordnet('m')
mi = Morphy(w); mu = Morphy()
for q in ['wolves','es','s','ss','bigger','biggest','oxen','resumes','Résumés', 'wolf', 'xes']:
    print(repr(q), 'init', {p: sorted(v) for p,v in mi(q).items()}, '| n:', {p: sorted(v) for p,v in mi(q,'n').items()}, '| uninit', {p: sorted(v) for p,v in mu(q).items()})
w.lemmatizer = mi
print([x.id for x in w.words('wolves')], [x.id for x in w.words('biggest')], [x.id for x in w.words('Wolves')])
w.lemmatizer = mu
print([x.id for x in w.words('wolves')], [x.id for x in w.words('biggest')], [x.id for x in w.words('Wolves')])
print(mi('bigger', 's'), mi('bigger','a'), mi('x', 't'), mu('x','t'))
