from mk import *
import wn, traceback, sqlite3, sys, math, warnings, gzip, lzma, tarfile, shutil, os
from wn import lmf
good = open('/repo/tests/data/mini-lmf-1.1.xml', encoding='utf-8').read()
def tryload(text, name='m.xml'):
    p = write(text, name)
    res = {}
    try: res['is_lmf'] = lmf.is_lmf(p)
    except Exception as e: res['is_lmf'] = 'EXC '+type(e).__name__
    try: r = lmf.load(p, progress_handler=None); res['load'] = 'ok'
    except Exception as e: res['load'] = f'EXC {type(e).__module__}.{type(e).__name__}: {e}'
    try: res['scan'] = [(i['id'],i['version'],i['label'],i['extends']) for i in lmf.scan_lexicons(p)]
    except Exception as e: res['scan'] = 'EXC '+type(e).__name__+str(e)
    return res
muts = {
 'nodecl': good.split('\n',1)[1],
 'single-quote decl': good.replace('<?xml version="1.0" encoding="UTF-8"?>', "<?xml version='1.0' encoding='UTF-8'?>"),
 'decl+doctype same line': good.replace('?>\n<!DOCTYPE', '?><!DOCTYPE',1),
 'bad doctype': good.replace('WN-LMF-1.1.dtd','WN-LMF-9.9.dtd'),
 'unknown elem': good.replace('<Lemma ', '<Lemmma ',1).replace('</Lemma>','</Lemmma>',1),
 '1.0 with Pronunciation': good.replace('WN-LMF-1.1.dtd','WN-LMF-1.0.dtd'),
 'dup lemma': good.replace('<Lemma writtenForm="情報" partOfSpeech="n" />', '<Lemma writtenForm="情報" partOfSpeech="n" /><Lemma writtenForm="情報" partOfSpeech="n" />'),
 'missing entry id': good.replace('<LexicalEntry id="test-ja-情報-n">', '<LexicalEntry>'),
 'missing lex version': good.replace('version="1"\n', '\n',1),
 'unbalanced': good.replace('</Lexicon>','',1),
 'missing sense synset': good.replace(' synset="test-ja-0001-n"','',1),
 'missing lemma pos': good.replace('<Lemma writtenForm="情報" partOfSpeech="n" />','<Lemma writtenForm="情報" />'),
 'comment before lexicon with <Lexicon': good.replace('<LexicalResource', '<!-- <Lexicon id="fake" version="0"> -->\n<LexicalResource',1),
 'label with apostrophe': good.replace('label="Testing Japanese WordNet"', 'label="Testing Japanese\'s &amp; WordNet"'),
 'attr single quotes containing dq': good.replace('label="Testing Japanese WordNet"', "label='Testing \"Japanese\" WordNet'"),
 'id attr order: xml:id first?': good.replace('<Lexicon id="test-ja"', '<Lexicon dc:identifier="zzz" id="test-ja"'),
}
print(tryload(good))
for k, t in muts.items():
    print(k, '=>', tryload(t))
