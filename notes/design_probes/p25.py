from mk import *
from obs import *
import wn
for src, lexs in [('/repo/tests/data/mini-lmf-1.0.xml','test-en test-es'), ('/repo/tests/data/mini-lmf-1.1.xml','test-ja'), ('/repo/tests/data/mini-lmf-1.3.xml', '*')]:
    for v in ['1.0','1.1','1.3']:
        fresh(); wn.add(src, progress_handler=None)
        w = wn.Wordnet(lexs, expand='')
        o1 = observe(w)
        out = write('', 'exp.xml')
        try:
            wn.export(w.lexicons(), out, version=v)
        except Exception as e:
            print(src[-16:], v, 'export EXC', type(e).__name__, e); continue
        fresh()
        import warnings
        with warnings.catch_warnings():
            warnings.simplefilter('ignore')
            try:
                wn.add(out, progress_handler=None)
                o2 = observe(wn.Wordnet(lexs, expand=''))
            except Exception as e:
                print(src[-16:], v, 're-add EXC', type(e).__name__, e); continue
        d = diff(o1,o2)
        print(src[-16:], v, 'diffs', len(d))
        for x in d[:6]: print('    ', x)
