from mk import *
import wn
body = '''<LexicalEntry id="a-e1"><Lemma writtenForm="x" partOfSpeech="n"/>
<Sense id="a-s1" synset="a-ss1"><SenseRelation relType="other" target="a-s2" dc:type="t1"/><SenseRelation relType="other" target="a-s2" dc:type="t2"/><SenseRelation relType="other" target="a-s2" dc:type="t2"/><SenseRelation relType="other" target="a-s2" dc:type="t2" note="n"/><SenseRelation relType="antonym" target="a-s1"/><SenseRelation relType="domain_topic" target="a-ss2"/><SenseRelation relType="weird_type" target="a-s2"/><SenseRelation relType="weird_type" target="a-ss1"/></Sense>
<Sense id="a-s2" synset="a-ss2"/></LexicalEntry>
<Synset id="a-ss1" ili="" partOfSpeech="n"><SynsetRelation relType="hypernym" target="a-ss2"/><SynsetRelation relType="hypernym" target="a-ss2"/><SynsetRelation relType="hypernym" target="a-ss1"/><SynsetRelation relType="other" target="a-ss2" dc:type="q"/><SynsetRelation relType="other" target="a-ss2" dc:type="r"/></Synset>
<Synset id="a-ss2" ili="" partOfSpeech="n"><SynsetRelation relType="hypernym" target="a-ss1"/></Synset>'''
fresh(); addtext(doc(lex('a', body)))
w = wn.Wordnet('a')
s = w.sense('a-s1')
print('sense.relations', s.relations())
print('get_related', s.get_related(), s.get_related('other'), s.get_related('antonym','weird_type'))
print('relation_map', [(r.name, r.target_id, r.subtype, r.metadata(), t.id) for r,t in s.relation_map().items()])
print('get_related_synsets', s.get_related_synsets(), end=' ')
try: print(s.get_related_synsets('domain_topic'), s.get_related_synsets('*'))
except Exception as e: print('EXC', type(e).__name__, e)
ss = w.synset('a-ss1')
print('synset.relations', ss.relations(), ss.relations('other'), ss.relations('*'))
print('relation_map', [(r.name, r.target_id, r.subtype, t.id) for r,t in ss.relation_map().items()])
print('closure', list(ss.closure('hypernym')), 'paths', list(ss.relation_paths('hypernym')))
print('sense closure', list(s.closure('other','antonym')), list(s.relation_paths('other','antonym')))
