from mk import *
import wn, sqlite3, collections, sys
fresh()
conn = wn._db.connect()
A = {sqlite3.SQLITE_INSERT:'INSERT', sqlite3.SQLITE_UPDATE:'UPDATE', sqlite3.SQLITE_DELETE:'DELETE', sqlite3.SQLITE_READ:'READ', sqlite3.SQLITE_TRANSACTION:'TXN', sqlite3.SQLITE_PRAGMA:'PRAGMA', sqlite3.SQLITE_SELECT:'SELECT'}
log = []
deny_at = [None]; n=[0]
def authorizer(action, a1, a2, db, trig):
    k = A.get(action, action)
    if k in ('INSERT','UPDATE','DELETE'):
        n[0]+=1
        log.append((k,a1))
        if deny_at[0] == n[0]: return sqlite3.SQLITE_DENY
    return sqlite3.SQLITE_OK
conn.set_authorizer(authorizer)
wn.add('/repo/tests/data/mini-lmf-1.0.xml', progress_handler=None)
print('add writes', n[0], sorted(set(log)))
wn.add('/repo/tests/data/mini-lmf-1.1.xml', progress_handler=None)
log.clear(); n[0]=0
c0 = len(wn.lexicons())
# deny each k during remove
import itertools
res = []
for k in range(1, 60):
    log.clear(); n[0]=0; deny_at[0]=k
    try:
        wn.remove('test-en', progress_handler=None)
        res.append((k,'ok')); break
    except Exception as e:
        res.append((k, type(e).__name__, len(wn.lexicons())))
deny_at[0]=None
print(res[:5], '...', res[-3:])
print('remove write auth seq', log[:40])
