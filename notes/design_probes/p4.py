from mk import *
import wn, traceback, sqlite3
from wn import lmf
base = lex('b', '''<LexicalEntry id="b-e1"><Lemma writtenForm="x" partOfSpeech="n"><Tag category="c">base-tag</Tag></Lemma><Form id="b-f1" writtenForm="xs"/>
<Sense id="b-s1" synset="b-ss1"/></LexicalEntry><Synset id="b-ss1" ili="i1" partOfSpeech="n"><Definition>base def</Definition></Synset>''')
ext = lex('x', '''<ExternalLexicalEntry id="b-e1"><ExternalLemma><Tag category="c">ext-tag</Tag><Pronunciation>extpron</Pronunciation></ExternalLemma><ExternalForm id="b-f1"><Tag category="c">ext-ftag</Tag></ExternalForm>
<Sense id="x-s1" synset="x-ss1"/><ExternalSense id="b-s1"><Example>ext example</Example><Count>7</Count></ExternalSense></ExternalLexicalEntry>
<Synset id="x-ss1" ili="i2" partOfSpeech="n"/><ExternalSynset id="b-ss1"><Definition>ext def</Definition><Example>ext ss example</Example><SynsetRelation relType="hypernym" target="x-ss1"/></ExternalSynset>''', ext=('b','1'))
fresh()
addtext(doc(base))
def obs(w):
    wd = w.words()[0]
    return dict(lemma_tags=[t.tag for t in wd.lemma().tags()], prons=[p.value for p in wd.lemma().pronunciations()],
       form_tags=[[t.tag for t in f.tags()] for f in wd.forms()], senses=[s.id for s in wd.senses()],
       ex=[s.examples() for s in wd.senses()], cnt=[s.counts() for s in wd.senses()],
       ssdef=w.synsets()[0].definition(), ssex=w.synsets()[0].examples(), hyp=w.synsets()[0].hypernyms())
w = wn.Wordnet('b')
o1 = obs(w)
addtext(doc(ext))
w = wn.Wordnet('b')
o2 = obs(w)
print('C04 base-only before ext:', o1)
print('C04 base-only after  ext:', o2)
print('default mode:', obs(wn.Wordnet()))
wx = wn.Wordnet('x')
print('ext-only words:', wx.words(), 'senses', wx.senses())
try:
    print('ext-only sense.word():', wx.senses()[0].word())
except Exception as e: print('ext-only sense.word() ->', type(e).__name__, e)
# C05: remove extension; residue?
wn.remove('x', progress_handler=None)
w = wn.Wordnet('b')
print('C05 after removing ext:', obs(w))
conn = sqlite3.connect(str(wn.config.database_path))
for t in ['tags','pronunciations','lexfiles','relation_types','ilis']:
    print(t, conn.execute(f'select * from {t}').fetchall())
print(conn.execute('PRAGMA foreign_key_check').fetchall())
