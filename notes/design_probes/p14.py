from mk import *
import wn, copy
from wn import lmf
t = doc(lex('a', '<LexicalEntry id="a-e1"><Lemma writtenForm="x" partOfSpeech="v"/><Sense id="a-s1" synset="a-ss1" subcat="a-f1"/><Sense id="a-s2" synset="a-ss1"/></LexicalEntry><Synset id="a-ss1" ili="" partOfSpeech="v"/><SyntacticBehaviour id="a-f1" subcategorizationFrame="foo" senses="a-s2"/>'))
p = write(t)
r = lmf.load(p, progress_handler=None); r0 = copy.deepcopy(r)
fresh(); wn.add_lexical_resource(r, progress_handler=None)
print('resource unchanged' if r==r0 else 'RESOURCE MODIFIED', r['lexicons'][0]['frames'])
print([ (s.id, s.frames()) for s in wn.senses()])
