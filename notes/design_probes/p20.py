src = open('p19.py').read().split("bad = collections.Counter()")[0]
exec(src)
bad = collections.Counter(); examples = {}
def is_dag(edges):
    up = collections.defaultdict(list)
    for c,p in edges: up[c].append(p)
    color={}
    def dfs(u):
        color[u]=1
        for v in up[u]:
            if color.get(v)==1: return False
            if v not in color and not dfs(v): return False
        color[u]=2; return True
    return all(dfs(u) for u in range(N) if u not in color)
ndag=0
for g, edges in enumerate(graphs):
    w = wn.Wordnet(f'g{g}:1', expand='')
    ss = [w.synset(f'g{g}-{i}') for i in range(N)]
    paths, anc, dist = ref(edges)
    dag = is_dag(edges); ndag += dag
    tag = 'dag' if dag else 'cyc'
    maxd = {i: max((len(p) for p in paths(i)), default=0) for i in range(N)}
    mind = {i: min((len(p) for p in paths(i)), default=0) for i in range(N)}
    for i in range(N):
        if ss[i].max_depth()!=maxd[i] or ss[i].min_depth()!=mind[i]: bad[tag+' depth']+=1
        # simulate root
        pr = [p+['R'] for p in paths(i)] or [['R']]
        got = sorted([('R' if s.id=='*ROOT*' else s.id.split('-')[1]) for s in p] for p in T.hypernym_paths(ss[i], simulate_root=True))
        if got != sorted([str(x) for x in p] for p in pr):
            bad[tag+' simroot paths']+=1; examples.setdefault(tag+' simroot paths',(edges,i,got,pr))
    roots = sorted(i for i in range(N) if not [p for c,p in edges if c==i])
    leaves = sorted(i for i in range(N) if not [c for c,p in edges if p==i])
    if sorted(int(s.id.split('-')[1]) for s in T.roots(w)) != roots: bad[tag+' roots']+=1
    if sorted(int(s.id.split('-')[1]) for s in T.leaves(w)) != leaves: bad[tag+' leaves']+=1
    td = T.taxonomy_depth(w,'n')
    if td != max(maxd.values()): bad[tag+' taxdepth']+=1; examples.setdefault(tag+' taxdepth',(edges,td,maxd))
    for i in range(N):
        for j in range(N):
            com = anc(i)&anc(j)
            got = sorted(int(s.id.split('-')[1]) for s in T.lowest_common_hypernyms(ss[i], ss[j]))
            if com:
                m = max(maxd[c] for c in com); exp = sorted(c for c in com if maxd[c]==m)
            else: exp=[]
            if got != exp:
                bad[tag+' lch']+=1; examples.setdefault(tag+' lch',(edges,i,j,got,exp,maxd))
            if not set(got) <= com or (bool(got)!=bool(com)): bad[tag+' lch-weak']+=1
            # simulate_root shortest path
            try: sp = T.shortest_path(ss[i], ss[j], simulate_root=True)
            except wn.Error: sp=None; bad[tag+' simroot sp error']+=1
            try: sp2 = T.shortest_path(ss[j], ss[i], simulate_root=True)
            except wn.Error: sp2=None
            if sp is not None and sp2 is not None and len(sp)!=len(sp2): bad[tag+' simroot asym']+=1; examples.setdefault(tag+' simroot asym',(edges,i,j,sp,sp2))
            if sp is not None:
                di, dj = dist(i), dist(j)
                cands = [di[c]+dj[c] for c in com] + [ (mind[i]+1) + (mind[j]+1) ]
                if len(sp) != min(cands): bad[tag+' simroot splen']+=1; examples.setdefault(tag+' simroot splen',(edges,i,j,[s.id for s in sp],min(cands)))
print('graphs', len(graphs), 'dags', ndag, 'disagreements', dict(bad))
for k,v in examples.items(): print(k, v)
