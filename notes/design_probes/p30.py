from mk import *
import wn
base = lex('b', '''<LexicalEntry id="b-e1"><Lemma writtenForm="x" partOfSpeech="n"/><Sense id="b-s1" synset="b-ss1"/></LexicalEntry><Synset id="b-ss1" ili="i1" partOfSpeech="n"/><Synset id="b-ss2" ili="i2" partOfSpeech="n"/>''')
ext = lex('x', '''<ExternalLexicalEntry id="b-e1"><Sense id="x-s1" synset="b-ss2"/></ExternalLexicalEntry><ExternalSynset id="b-ss2"/>''', ext=('b','1'))
fresh(); addtext(doc(base))
def o():
    w = wn.Wordnet('b:1')
    return dict(synsets_x=[s.id for s in w.synsets('x')], senses_x=[s.id for s in w.senses('x')], word_senses=[s.id for s in w.word('b-e1').senses()], members=[s.id for s in w.synset('b-ss2').senses()], wsyn=[s.id for s in w.word('b-e1').synsets()])
print('before', o()); addtext(doc(ext)); print('after ', o())
print('default', [s.id for s in wn.Wordnet().synsets('x')], 'ext-only', [s.id for s in wn.Wordnet('x:1').synsets('x')], [s.id for s in wn.Wordnet('x:1').senses('x')])
