from mk import *
import wn, traceback, sqlite3
def mini(id, version, lang='en', form='x'):
    return lex(id, f'''<LexicalEntry id="{id}-e1"><Lemma writtenForm="{form}" partOfSpeech="n"/><Sense id="{id}-s1" synset="{id}-ss1"/></LexicalEntry><Synset id="{id}-ss1" ili="i1" partOfSpeech="n"/>''', version=version, lang=lang)
fresh()
for id, v in [('a','2020'),('a','2019'),('ab','1'),('b','1.0+x'),('b','0.9')]:
    addtext(doc(mini(id, v, form=f'w{v}')))
def L(spec, lang=None):
    return [l.specifier() for l in wn.lexicons(lexicon=spec, lang=lang)]
for s in ['a','a:*','a*','*:1','a b','a b:*','b','ab','a:2019 a','*','a:20??','zzz','a zzz', 'zzz a']:
    try: print(repr(s), L(s))
    except Exception as e: print(repr(s), 'EXC', type(e).__name__, e)
for s in ['a','a zzz','zzz']:
    try: print('Wordnet', repr(s), [l.specifier() for l in wn.Wordnet(s).lexicons()])
    except Exception as e: print('Wordnet', repr(s), 'EXC', type(e).__name__, e)
# C10: two versions: navigation
print('--- C10')
w = wn.Wordnet()
for s in w.senses():
    print(s.id, s.lexicon().specifier(), '-> word', s.word().lexicon().specifier(), s.word().lemma(), 'synset', s.synset().lexicon().specifier())
w = wn.Wordnet('a:*')
for s in w.senses():
    print('a:*', s.id, s.lexicon().specifier(), '-> word', s.word().lexicon().specifier(), s.word().lemma())
for wd in wn.Wordnet().words():
    print(wd.id, wd.lexicon().specifier(), [ (s.id, s.lexicon().specifier()) for s in wd.senses()], [ss.lexicon().specifier() for ss in wd.synsets()])
