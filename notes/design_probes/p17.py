from mk import *
import wn, sqlite3, itertools
def L(id, ext=None, req=None, v='1'):
    body = f'<Synset id="{id}-ss1" ili="i1" partOfSpeech="n"/>'
    s = lex(id, body, ext=ext, version=v)
    if req: s = s.replace(f'<Synset id="{id}-ss1"', f'<Requires id="{req[0]}" version="{req[1]}"/><Synset id="{id}-ss1"',1)
    return s
docs = {'b': L('b'), 'x': L('x', ext=('b','1')), 'y': L('y', ext=('x','1')), 'c': L('c', req=('b','1')), 'b2': L('b', v='2')}
def state():
    return sorted((l.specifier(), l.extends() and l.extends().specifier(), sorted(e.specifier() for e in l.extensions(depth=-1)), {k:(v and v.specifier()) for k,v in l.requires().items()}) for l in wn.lexicons())
for order in [['b','x','y','c','b2'], ['c','b','b2','x','y'], ['x','b','y','x','y']]:
    fresh()
    for k in order: addtext(doc(docs[k]))
    print(order, '->', state())
    for spec in ['*', 'b', 'b:*', 'x', '*:1', 'y x']:
        fresh()
        for k in order: addtext(doc(docs[k]))
        try:
            wn.remove(spec, progress_handler=None); print('  remove', repr(spec), '->', [s[0] for s in state()])
        except Exception as e:
            print('  remove', repr(spec), 'EXC', type(e).__name__, e, '->', [s[0] for s in state()])
# re-add after removal: dependency relink
fresh()
for k in ['b','c']: addtext(doc(docs[k]))
wn.remove('b', progress_handler=None); print(state())
addtext(doc(docs['b'])); print(state())
conn = sqlite3.connect(str(wn.config.database_path)); print(conn.execute('select * from lexicon_dependencies').fetchall(), conn.execute('select rowid,id,version from lexicons').fetchall())
