from mk import *
import wn, traceback
# 1. synset without partOfSpeech
fresh()
try:
    addtext(doc(lex('a', '<LexicalEntry id="a-e1"><Lemma writtenForm="x" partOfSpeech="n"/><Sense id="a-s1" synset="a-ss1"/></LexicalEntry><Synset id="a-ss1" ili=""/>')))
    print('1 ok', wn.synsets()[0].pos)
except Exception as e:
    print('1 FAIL', type(e), e)
# 2. lexicon-level frame without id
fresh()
try:
    addtext(doc(lex('a', '<LexicalEntry id="a-e1"><Lemma writtenForm="x" partOfSpeech="v"/><Sense id="a-s1" synset="a-ss1"/></LexicalEntry><Synset id="a-ss1" ili="" partOfSpeech="v"/><SyntacticBehaviour subcategorizationFrame="foo" senses="a-s1"/>')))
    print('2 ok', wn.senses()[0].frames())
except Exception as e:
    print('2 FAIL', type(e), e)
# 2b frame with id and senses attr + subcat
fresh()
try:
    addtext(doc(lex('a', '<LexicalEntry id="a-e1"><Lemma writtenForm="x" partOfSpeech="v"/><Sense id="a-s1" synset="a-ss1" subcat="a-f1"/><Sense id="a-s2" synset="a-ss1"/></LexicalEntry><Synset id="a-ss1" ili="" partOfSpeech="v"/><SyntacticBehaviour id="a-f1" subcategorizationFrame="foo" senses="a-s2"/>')))
    print('2b ok', [s.frames() for s in wn.senses()])
except Exception as e:
    print('2b FAIL', type(e), e)
