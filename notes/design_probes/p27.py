# randomized prototype of the C09 / C17 reference models against the real code
from mk import *
import wn, random, itertools, unicodedata, sys
from wn.morphy import Morphy, DETACHMENT_RULES
from xml.sax.saxutils import quoteattr
def normalize(s): return ''.join(c for c in unicodedata.normalize('NFKD', s.lower()) if not unicodedata.combining(c))
rng = random.Random(int(sys.argv[1]) if len(sys.argv)>1 else 0)
STEMS = ['resume','Résumé','RESUME','wolf','wolve','ax','axe','axis','bus','s','es','men','man','big','bigge','San José','san jose','ﬁsh','fish','run','runn','ox','oxen','情報','e','y','fl']
SUFF = ['s','ces','ses','ves','ives','xes','zes','ches','shes','men','ies','es','ed','ing','er','est']
POS = ['n','v','a','s','r']
nbad = 0; ncases = 0; nq = 0
for case in range(40):
    words = []
    for i in range(rng.randint(3, 14)):
        lemma = rng.choice(STEMS) + (rng.choice(SUFF) if rng.random()<0.3 else '')
        forms = list(dict.fromkeys(f for f in [rng.choice(STEMS)+(rng.choice(SUFF) if rng.random()<0.5 else '') for _ in range(rng.randint(0,2))] if f != lemma))
        words.append((f'e{i}', lemma, rng.choice(POS), forms))
    body = ''.join(f'<LexicalEntry id="{id}"><Lemma writtenForm={quoteattr(l)} partOfSpeech="{p}"/>' + ''.join(f'<Form writtenForm={quoteattr(f)}/>' for f in fs) + f'<Sense id="{id}-s" synset="ss-{p}"/></LexicalEntry>' for id,l,p,fs in words)
    body += ''.join(f'<Synset id="ss-{p}" ili="" partOfSpeech="{p}"/>' for p in POS)
    fresh(); addtext(doc(lex('m', body)))
    ncases += 1
    queries = set()
    for id,l,p,fs in words:
        for f in [l]+fs:
            queries |= {f, f.lower(), f.upper(), normalize(f), f+'s', f+'es', f+'ed', f+'ing', f+'er', f+'est', f[:-1] if len(f)>1 else f}
    queries |= set(SUFF) | {'zzz'}
    queries = sorted(queries); rng.shuffle(queries); queries = queries[:60]
    def model_search(q, pos, norm_on, all_forms, lemmatizer):
        cands = lemmatizer(q, pos) if lemmatizer else {}
        if not cands: cands = {pos: {q}}
        def one_pass(tr):
            res = []
            for p_, fs_ in cands.items():
                qs = {tr(f) for f in fs_}
                for id,l,p,fs in words:
                    if p_ and p != p_: continue
                    stored = [l] + (fs if all_forms else [])
                    if any(f in qs or (norm_on and normalize(f) in qs) for f in stored):
                        res.append(id)
            return res
        r = one_pass(lambda f: f)
        if not r and norm_on: r = one_pass(normalize)
        return set(r)
    # morphy models
    def morphy_uninit(form, pos):
        res = {pos: {form}}
        plist = list(DETACHMENT_RULES) if pos is None else ([pos] if pos in DETACHMENT_RULES else [])
        RULES = {'n':[("s",""),("ces","x"),("ses","s"),("ves","f"),("ives","ife"),("xes","x"),("xes","xis"),("zes","z"),("ches","ch"),("shes","sh"),("men","man"),("ies","y")],
                 'v':[("s",""),("ies","y"),("es","e"),("es",""),("ed","e"),("ed",""),("ing","e"),("ing","")],
                 'a':[("er",""),("est",""),("er","e"),("est","e")], 'r':[]}
        RULES['s'] = RULES['a']
        for p in plist:
            c = {form[:-len(s)]+r for s,r in RULES[p] if form.endswith(s) and len(s) < len(form)}
            c -= (res.get(None, set()))
            if c: res.setdefault(p,set()).update(c)
        return res, RULES
    def morphy_init(form, pos):
        _, RULES = morphy_uninit(form, pos)
        plist = list(DETACHMENT_RULES) if pos is None else ([pos] if pos in DETACHMENT_RULES else [])
        res = {}
        for p in plist:
            lemmas = {l for id,l,pp,fs in words if pp == p}
            c = set()
            if form in lemmas: c.add(form)
            c |= {l for id,l,pp,fs in words if pp==p and form in fs}
            c |= {x for x in {form[:-len(s)]+r for s,r in RULES[p] if form.endswith(s) and len(s) < len(form)} if x in lemmas}
            if c: res[p] = c
        return res
    w0 = wn.Wordnet('m')
    mi, mu = Morphy(w0), Morphy()
    for q in queries:
        for pos in [None,'n','v','a','s','r','t']:
            nq += 1
            if mu(q,pos) != morphy_uninit(q,pos)[0]: nbad+=1; print('MORPHY-UNINIT', q, pos, mu(q,pos), morphy_uninit(q,pos)[0])
            if mi(q,pos) != morphy_init(q,pos): nbad+=1; print('MORPHY-INIT', q, pos, mi(q,pos), morphy_init(q,pos), words)
            for norm_on in (True, False):
                for all_forms in (True, False):
                    for lemname, lem in (('none',None), ('mu',mu), ('mi',mi)):
                        w = wn.Wordnet('m', normalizer=(wn._util.normalize_form if norm_on else None), search_all_forms=all_forms, lemmatizer=lem)
                        got = [x.id for x in w.words(q, pos)]
                        exp = model_search(q, pos, norm_on, all_forms, lem)
                        if set(got) != exp or len(got) != len(set(got)):
                            nbad += 1
                            if nbad < 8: print('SEARCH', repr(q), pos, norm_on, all_forms, lemname, got, sorted(exp))
                        gs = {s.id[:-2] for s in w.senses(q, pos)}
                        if gs != exp: nbad += 1; (nbad<8) and print('SENSES', repr(q), pos, norm_on, all_forms, lemname, sorted(gs), sorted(exp))
print('cases', ncases, 'queries', nq, 'disagreements', nbad)
