#!/usr/bin/env python3
"""False-alarm test of the checks: behaviour-preserving changes ("benign refactorings", selftest/benign/<name>/patch.diff)
are applied to a scratch worktree of /repo and EVERY quick check is run against it.  Expected: exit 0 everywhere.
Anything else is triaged by hand: either the change is not behaviour-preserving after all (then it is noted as such) or the
check demanded too much and is corrected (DESIGN.md section 11).

    selftest/run_benign.py [name ...]        results -> selftest/BENIGN.md, selftest/benign_results.json
"""
import json
import os
import subprocess
import sys
import time
from pathlib import Path

HOME = Path(__file__).resolve().parent.parent
BENIGN = HOME / 'selftest' / 'benign'
WT = Path(os.environ.get('SELFTEST_WORKTREE', '/tmp/selftest-wt3'))
PROPS = os.environ.get('BENIGN_CHECKS', '').split() or [f'C{i:02}' for i in range(1, 21)]


def sh(cmd, **kw):
    return subprocess.run(cmd, shell=isinstance(cmd, str), capture_output=True, text=True, **kw)


def main():
    names = sys.argv[1:] or sorted(p.name for p in BENIGN.iterdir() if (p / 'patch.diff').exists())
    if not (WT / 'wn').is_dir():
        sh('git -C /repo worktree prune')
        sh(f'git -C /repo worktree add --detach {WT} HEAD')
    sh(f'git -C {WT} checkout -q --detach $(git -C /repo rev-parse HEAD); git -C {WT} checkout -- .; git -C {WT} clean -fdq')
    rj = Path(os.environ.get('BENIGN_RESULTS', HOME / 'selftest' / 'benign_results.json'))
    results = json.loads(rj.read_text()) if rj.exists() else {}
    for name in names:
        d = BENIGN / name
        sh(f'git -C {WT} checkout -- .; git -C {WT} clean -fdq')
        a = sh(f'git -C {WT} apply {d / "patch.diff"}')
        if a.returncode:
            results[name] = {'error': 'patch does not apply'}
            continue
        env = dict(os.environ, VERIF_REPO=str(WT), VERIF_REPLAYS=str(HOME / '.scratch' / ('replays-' + WT.name)))
        t = sh(f'cd {WT} && PYTHONPATH={WT} /venv/bin/python -m pytest -q -x -p no:cacheprovider tests 2>&1 | tail -1')
        res = {'tests': t.stdout.strip()[-60:], 'checks': {}}
        props = PROPS
        if os.environ.get('BENIGN_MAPPED'):
            # only the checks that look at the files the patch touches (the map of selftest/mutate.py)
            sys.path.insert(0, str(HOME / 'selftest'))
            import mutate
            touched = [l[6:].strip() for l in (d / 'patch.diff').read_text().splitlines() if l.startswith('+++ b/')]
            props = sorted({c for f in touched for c in mutate.FILE_CHECKS.get(f, PROPS)})
            res['mapped_to'] = props
        for pid in props:
            t0 = time.time()
            r = sh([str(HOME / 'check'), pid, '--tier', 'quick'], env=env, cwd=str(HOME))
            lines = [l[:400] for l in r.stdout.splitlines() if l.startswith(('VIOLATION', 'INCONCLUSIVE'))]
            res['checks'][pid] = {'rc': r.returncode, 'lines': lines[:3], 'wall': round(time.time() - t0, 1)}
        res['alarms'] = [p for p, c in res['checks'].items() if c['rc'] != 0]
        results[name] = res
        print(name, res['tests'], 'ALARMS:' if res['alarms'] else 'silent', res['alarms'], flush=True)
        rj.write_text(json.dumps(results, indent=1) + '\n')
    sh(f'git -C {WT} checkout -- .; git -C {WT} clean -fdq')
    lines = ['# Behaviour-preserving changes vs. all quick checks', '',
             '| change | repo tests | checks that alarmed (rc != 0) | first line |', '|---|---|---|---|']
    for name in sorted(results):
        r_ = results[name]
        if 'error' in r_:
            lines.append(f'| {name} | | ERROR {r_["error"]} | |')
            continue
        first = next((c['lines'][0] for p, c in r_['checks'].items() if c['rc'] != 0 and c['lines']), '')
        lines.append(f'| {name} | {r_["tests"]} | {", ".join(r_["alarms"]) or "none"} | {first[:160]} |')
    Path(os.environ.get('BENIGN_MD', HOME / 'selftest' / 'BENIGN.md')).write_text('\n'.join(lines) + '\n')


if __name__ == '__main__':
    main()
