#!/usr/bin/env python3
"""Mutation sampling: how many small, test-surviving source mutations of /repo do the quick checks catch?

A mutant is one textual edit of one file under wn/ produced from the syntax tree (comparison / boolean operator swaps,
negation dropped, integer constants +-1, True<->False, a dropped SQL clause line, a dropped statement, a swapped pair of
call arguments, `x or y` default dropped).  Each sampled mutant is applied to a scratch worktree of /repo (never to /repo
itself); mutants that do not compile or that the repository's own tests reject are discarded; for the rest the checks
mapped to the mutated file are run with VERIF_REPO pointing at the scratch tree.

    selftest/mutate.py generate  [--seed N] [--per-file K]      -> selftest/mutants/plan.json
    selftest/mutate.py run [--workers W] [--jobs J] [--only FILE] [--resume]   -> selftest/mutants/results.json, MUTANTS.md
    selftest/mutate.py show NAME                                 -> the diff of one mutant

Survivors are triaged by hand (equivalent / outside every property / gap); the triage is in selftest/mutants/triage.json.
"""
import argparse
import ast
import json
import os
import random
import re
import subprocess
import sys
import time
from concurrent.futures import ThreadPoolExecutor
from pathlib import Path

HOME = Path(__file__).resolve().parent.parent
OUT = HOME / 'selftest' / 'mutants'
REPO = Path('/repo')

# which checks look at which source file (the owner properties by anchor, plus neighbours that exercise the file heavily)
FILE_CHECKS = {
    'wn/_add.py': ['C01', 'C05', 'C06', 'C07', 'C19', 'C11', 'C09', 'C03', 'C20', 'C18'],
    'wn/_queries.py': ['C01', 'C04', 'C05', 'C08', 'C09', 'C10', 'C11', 'C12', 'C19', 'C03'],
    'wn/_core.py': ['C01', 'C04', 'C08', 'C09', 'C10', 'C11', 'C12', 'C13', 'C16', 'C17', 'C19'],
    'wn/_db.py': ['C01', 'C05', 'C06', 'C07'],
    'wn/_export.py': ['C03', 'C16'],
    'wn/_ili.py': ['C19', 'C07'],
    'wn/_util.py': ['C09', 'C07', 'C01', 'C20', 'C08'],
    'wn/constants.py': ['C18', 'C01', 'C17', 'C02'],
    'wn/ic.py': ['C15', 'C14', 'C16'],
    'wn/lmf.py': ['C02', 'C20', 'C01', 'C03', 'C07'],
    'wn/morphy.py': ['C17', 'C09', 'C16'],
    'wn/project.py': ['C07', 'C19', 'C20'],
    'wn/similarity.py': ['C14', 'C16'],
    'wn/taxonomy.py': ['C13', 'C14', 'C15', 'C16'],
    'wn/validate.py': ['C18', 'C16'],
    'wn/__main__.py': ['C18', 'C08'],
    'wn/util.py': ['C06'],
}
SKIP_FUNCS = {'__repr__', '__str__', 'describe', '_format_lexicon', 'download', '_download'}
SKIP_CALLS = {'flash', 'set', 'update', 'close', 'warn', 'debug', 'info', 'warning', 'format', 'getLogger', 'add_argument',
              'add_parser', 'print'}
CMP = {ast.Lt: '<=', ast.LtE: '<', ast.Gt: '>=', ast.GtE: '>', ast.Eq: '!=', ast.NotEq: '==', ast.In: 'not in',
       ast.NotIn: 'in', ast.Is: 'is not', ast.IsNot: 'is'}
SQL_LINE = re.compile(r'^\s*(AND |OR |ORDER BY|LIMIT |DISTINCT|GROUP BY|WHERE )', re.I)


def sh(cmd, **kw):
    return subprocess.run(cmd, shell=isinstance(cmd, str), capture_output=True, text=True, **kw)


class Collector(ast.NodeVisitor):
    def __init__(self, src):
        self.src = src
        self.lines = src.splitlines(keepends=True)
        self.out = []          # (kind, lineno, col, end_lineno, end_col, replacement, note)
        self.func = []
        self.docstrings = set()

    def seg(self, node):
        return ast.get_source_segment(self.src, node)

    def add(self, kind, node, repl, note=''):
        self.out.append((kind, node.lineno, node.col_offset, node.end_lineno, node.end_col_offset, repl, note))

    def visit_FunctionDef(self, node):
        if node.name in SKIP_FUNCS:
            return
        self.func.append(node.name)
        if node.body and isinstance(node.body[0], ast.Expr) and isinstance(getattr(node.body[0], 'value', None), ast.Constant) \
                and isinstance(node.body[0].value.value, str):
            self.docstrings.add(id(node.body[0].value))
        # statement deletion: simple statements that are not the only one in the block
        self.stmt_deletions(node.body)
        self.generic_visit(node)
        self.func.pop()

    visit_AsyncFunctionDef = visit_FunctionDef

    def visit_ClassDef(self, node):
        if node.body and isinstance(node.body[0], ast.Expr) and isinstance(getattr(node.body[0], 'value', None), ast.Constant):
            self.docstrings.add(id(node.body[0].value))
        self.generic_visit(node)

    def stmt_deletions(self, body):
        for blk in ast.walk(ast.Module(body=body, type_ignores=[])):
            for field in ('body', 'orelse', 'finalbody'):
                stmts = getattr(blk, field, None)
                if not isinstance(stmts, list) or len(stmts) < 2:
                    continue
                for st in stmts:
                    if isinstance(st, (ast.Assign, ast.AugAssign, ast.Expr)) and not (isinstance(st, ast.Expr) and isinstance(st.value, ast.Constant)):
                        if isinstance(st, ast.Expr) and isinstance(st.value, ast.Call) and self._callname(st.value) in SKIP_CALLS:
                            continue
                        if st.lineno == st.end_lineno or True:
                            self.add('delete-statement', st, 'pass', self.seg(st)[:60] if self.seg(st) else '')
                    if isinstance(st, ast.If) and not st.orelse and len(st.body) == 1 and isinstance(st.body[0], (ast.Continue, ast.Return, ast.Raise)):
                        self.add('delete-guard', st, 'pass', (self.seg(st) or '')[:60])

    @staticmethod
    def _callname(call):
        f = call.func
        return f.attr if isinstance(f, ast.Attribute) else getattr(f, 'id', '')

    def visit_Call(self, node):
        if self._callname(node) in SKIP_CALLS:
            return
        # swap two adjacent positional arguments of equal "shape" (both names)
        names = [a for a in node.args if isinstance(a, ast.Name)]
        if len(node.args) >= 2 and len(names) >= 2:
            a, b = names[0], names[1]
            if a.id != b.id and a.lineno == b.lineno:
                self.out.append(('swap-args', a.lineno, a.col_offset, b.end_lineno, b.end_col_offset,
                                 self.src_of(b) + self.between(a, b) + self.src_of(a), f'{a.id},{b.id}'))
        self.generic_visit(node)

    def src_of(self, n):
        return self.seg(n)

    def between(self, a, b):
        line = self.lines[a.lineno - 1]
        return line.encode()[a.end_col_offset:b.col_offset].decode()

    def visit_Compare(self, node):
        if len(node.ops) == 1 and type(node.ops[0]) in CMP:
            left, right = node.left, node.comparators[0]
            if left.end_lineno == right.lineno:
                line = self.lines[left.end_lineno - 1].encode()
                mid = line[left.end_col_offset:right.col_offset].decode()
                new = ' ' + CMP[type(node.ops[0])] + ' '
                self.out.append(('compare', left.end_lineno, left.end_col_offset, right.lineno, right.col_offset, new, mid.strip()))
        self.generic_visit(node)

    def visit_BoolOp(self, node):
        a, b = node.values[0], node.values[1]
        if a.end_lineno == b.lineno:
            line = self.lines[a.end_lineno - 1].encode()
            mid = line[a.end_col_offset:b.col_offset].decode()
            if mid.strip() in ('and', 'or'):
                new = ' or ' if isinstance(node.op, ast.And) else ' and '
                self.out.append(('boolop', a.end_lineno, a.end_col_offset, b.lineno, b.col_offset, new, mid.strip()))
        if isinstance(node.op, ast.Or) and len(node.values) == 2:
            self.add('drop-default', node, self.seg(node.values[0]), self.seg(node)[:50])
        self.generic_visit(node)

    def visit_UnaryOp(self, node):
        if isinstance(node.op, ast.Not):
            self.add('drop-not', node, '(' + self.seg(node.operand) + ')', (self.seg(node) or '')[:50])
        self.generic_visit(node)

    def visit_Constant(self, node):
        if id(node) in self.docstrings:
            return
        v = node.value
        if v is True or v is False:
            self.add('bool', node, str(not v), str(v))
        elif isinstance(v, int) and not isinstance(v, bool) and abs(v) < 1000:
            self.add('int', node, str(v + 1), str(v))
            if v > 0:
                self.add('int', node, str(v - 1), str(v))
        elif isinstance(v, str) and node.lineno != node.end_lineno and re.search(r'\b(SELECT|INSERT|DELETE|UPDATE|WITH)\b', v):
            # SQL: drop one clause line
            for ln in range(node.lineno, node.end_lineno + 1):
                text = self.lines[ln - 1]
                if SQL_LINE.match(text) and '{' not in text and "'''" not in text and '"""' not in text:
                    self.out.append(('sql-drop-line', ln, 0, ln, len(text.rstrip('\n').encode()), '', text.strip()[:70]))
            if 'DISTINCT' in v:
                pass

    def visit_IfExp(self, node):
        self.add('ifexp-then', node, self.seg(node.body), (self.seg(node) or '')[:50])
        self.add('ifexp-else', node, self.seg(node.orelse), (self.seg(node) or '')[:50])
        self.generic_visit(node)

    def visit_If(self, node):
        # `if a: X else: Y` / elif chains are left to compare/boolop/drop-not mutants
        self.generic_visit(node)


def mutants_of(path):
    src = path.read_text()
    tree = ast.parse(src)
    c = Collector(src)
    c.visit(tree)
    seen, out = set(), []
    for m in c.out:
        key = m[:6]
        if key in seen or m[5] is None:
            continue
        seen.add(key)
        out.append(m)
    return src, out


def apply(src, m):
    kind, l1, c1, l2, c2, repl, note = m
    lines = src.splitlines(keepends=True)
    bl = [x.encode() for x in lines]
    if l1 == l2:
        b = bl[l1 - 1]
        bl[l1 - 1] = b[:c1] + repl.encode() + b[c2:]
    else:
        first, last = bl[l1 - 1], bl[l2 - 1]
        bl[l1 - 1:l2] = [first[:c1] + repl.encode() + last[c2:]]
    return b''.join(bl).decode()


def generate(args):
    rng = random.Random(args.seed)
    plan = []
    earlier = set()
    for old in OUT.glob('plan*.json'):
        for m in json.loads(old.read_text())['mutants']:
            earlier.add((m['file'], tuple(m['mutation'][:6])))
    for rel in FILE_CHECKS:
        if args.files and rel not in args.files.split(','):
            continue
        path = REPO / rel
        src, ms = mutants_of(path)
        # weight: sample evenly over kinds so that the many int/compare mutants do not crowd out the rest
        by_kind = {}
        ms = [m for m in ms if (rel, tuple(m[:6])) not in earlier]
        for m in ms:
            by_kind.setdefault(m[0], []).append(m)
        n = min(len(ms), max(4, int(args.per_file * len(src.splitlines()) / 400)))
        picked = []
        kinds = sorted(by_kind)
        while len(picked) < n and kinds:
            for k in list(kinds):
                if not by_kind[k]:
                    kinds.remove(k)
                    continue
                picked.append(by_kind[k].pop(rng.randrange(len(by_kind[k]))))
                if len(picked) >= n:
                    break
        for i, m in enumerate(picked):
            plan.append({'name': f'{args.tag}{Path(rel).stem.strip("_")}-{m[1]}-{m[0]}-{i}', 'file': rel, 'mutation': list(m)})
        print(rel, 'candidates', len(ms), 'sampled', len(picked))
    OUT.mkdir(parents=True, exist_ok=True)
    (OUT / f'plan{args.tag}.json').write_text(json.dumps({'repo_head': sh('git -C /repo rev-parse HEAD').stdout.strip(), 'seed': args.seed, 'mutants': plan}, indent=1))
    print('total', len(plan))


def worker(idx, queue, args, results, head):
    wt = Path(f'/tmp/mut-wt{idx}')
    if not (wt / 'wn').is_dir():
        sh('git -C /repo worktree prune')
        sh(f'git -C /repo worktree add --detach {wt} HEAD')
    sh(f'git -C {wt} checkout -q --detach {head}; git -C {wt} checkout -- .; git -C {wt} clean -fdq')
    while True:
        try:
            mu = queue.pop()
        except IndexError:
            break
        name = mu['name']
        path = wt / mu['file']
        src = sh(['git', '-C', str(REPO), 'show', f'{head}:{mu["file"]}']).stdout
        res = {'file': mu['file'], 'kind': mu['mutation'][0], 'line': mu['mutation'][1], 'note': mu['mutation'][6]}
        try:
            new = apply(src, tuple(mu['mutation']))
            compile(new, str(path), 'exec')
        except (SyntaxError, ValueError) as exc:
            res['status'] = 'does-not-compile'
            results[name] = res
            continue
        if new == src:
            res['status'] = 'no-change'
            results[name] = res
            continue
        path.write_text(new)
        try:
            env = dict(os.environ, PYTHONPATH=str(wt))
            t = sh(f'cd {wt} && timeout 600 /venv/bin/python -m pytest -q -x -p no:cacheprovider tests 2>&1 | tail -1', env=env)
            res['tests'] = t.stdout.strip()[-60:]
            if ' passed' not in t.stdout or 'failed' in t.stdout or 'error' in t.stdout:
                res['status'] = 'killed-by-repo-tests'
                results[name] = res
                continue
            env2 = dict(os.environ, VERIF_REPO=str(wt), VERIF_REPLAYS=str(HOME / '.scratch' / f'replays-mut{idx}'))
            env2.pop('PYTHONPATH', None)
            res['checks'] = {}
            caught = False
            for pid in FILE_CHECKS[mu['file']]:
                t0 = time.time()
                r = sh([str(HOME / 'check'), pid, '--tier', 'quick', '--jobs', str(args.jobs)], env=env2, cwd=str(HOME), timeout=3600)
                keys = sorted({l.split(' key=', 1)[1].split(' count=')[0] for l in r.stdout.splitlines() if l.startswith('VIOLATION') and ' key=' in l})
                res['checks'][pid] = {'rc': r.returncode, 'keys': keys[:6], 'wall': round(time.time() - t0, 1)}
                if r.returncode == 1:
                    caught = True
                    if not args.all:
                        break
            res['status'] = 'caught' if caught else ('inconclusive' if any(c['rc'] == 2 for c in res['checks'].values()) else 'SURVIVED')
            res['caught_by'] = [p for p, c in res['checks'].items() if c['rc'] == 1]
        except subprocess.TimeoutExpired:
            res['status'] = 'timeout'
        finally:
            path.write_text(src)
            sh(f'git -C {wt} checkout -- .; git -C {wt} clean -fdq')
        results[name] = res
        print(f'[{len(results)}] {name}: {res["status"]} {res.get("caught_by", "")} | {res["note"][:50]}', flush=True)
        (OUT / f'results{args.tag}.json').write_text(json.dumps(results, indent=1))
    sh(f'git -C /repo worktree remove --force {wt}')


def run(args):
    plan = json.loads((OUT / f'plan{args.tag}.json').read_text())
    head = plan['repo_head']          # positions in the plan refer to this commit
    results = {}
    if args.resume and (OUT / f'results{args.tag}.json').exists():
        results = json.loads((OUT / f'results{args.tag}.json').read_text())
    queue = [m for m in plan['mutants'] if m['name'] not in results and (not args.only or m['file'] == args.only)]
    queue.reverse()
    with ThreadPoolExecutor(args.workers) as ex:
        futs = [ex.submit(worker, i, queue, args, results, head) for i in range(args.workers)]
        for f in futs:
            f.result()
    (OUT / f'results{args.tag}.json').write_text(json.dumps(results, indent=1))
    report(all_results())


def all_results():
    out = {}
    for f in sorted(OUT.glob('results*.json')):
        out.update(json.loads(f.read_text()))
    return out


def report(results):
    from collections import Counter
    tri = {}
    if (OUT / 'triage.json').exists():
        tri = json.loads((OUT / 'triage.json').read_text())
    c = Counter(r['status'] for r in results.values())
    lines = ['# Mutation sampling', '', f'{len(results)} sampled mutants: ' + ', '.join(f'{k} {v}' for k, v in sorted(c.items())), '']
    per = {}
    for n, r in results.items():
        per.setdefault(r['file'], Counter())[r['status']] += 1
    lines += ['| file | discarded (tests / compile) | caught | survived | inconclusive |', '|---|---|---|---|---|']
    for f, k in sorted(per.items()):
        lines.append(f'| {f} | {k["killed-by-repo-tests"] + k["does-not-compile"] + k["no-change"]} | {k["caught"]} | {k["SURVIVED"]} | {k["inconclusive"] + k["timeout"]} |')
    lines += ['', '## Survivors', '', '| mutant | file:line | kind | text | triage |', '|---|---|---|---|---|']
    for n, r in sorted(results.items()):
        if r['status'] in ('SURVIVED', 'inconclusive', 'timeout'):
            lines.append(f'| {n} | {r["file"]}:{r["line"]} | {r["kind"]} | `{r["note"][:60]}` | {tri.get(n, "")} |')
    (HOME / 'selftest' / 'MUTANTS.md').write_text('\n'.join(lines) + '\n')
    print('\n'.join(lines[:12]))


def show(args):
    for pf in sorted(OUT.glob('plan*.json')):
      plan = json.loads(pf.read_text())
      for m in plan['mutants']:
          if m['name'] == args.name:
              src = sh(['git', '-C', str(REPO), 'show', f'{plan["repo_head"]}:{m["file"]}']).stdout
              new = apply(src, tuple(m['mutation']))
              import difflib
              sys.stdout.writelines(difflib.unified_diff(src.splitlines(keepends=True), new.splitlines(keepends=True), m['file'], m['file'], n=4))


def main():
    ap = argparse.ArgumentParser()
    sub = ap.add_subparsers(dest='cmd', required=True)
    g = sub.add_parser('generate')
    g.add_argument('--seed', type=int, default=1)
    g.add_argument('--per-file', type=int, default=12)
    g.add_argument('--tag', default='', help='suffix of the plan file and prefix of the mutant names (second, third ... sample)')
    g.add_argument('--files', default='', help='comma-separated subset of files')
    r = sub.add_parser('run')
    r.add_argument('--tag', default='')
    r.add_argument('--workers', type=int, default=4)
    r.add_argument('--jobs', type=int, default=4)
    r.add_argument('--only')
    r.add_argument('--resume', action='store_true')
    r.add_argument('--all', action='store_true', help='run every mapped check even after one caught the mutant')
    s = sub.add_parser('show')
    s.add_argument('name')
    sub.add_parser('report')
    args = ap.parse_args()
    if args.cmd == 'generate':
        generate(args)
    elif args.cmd == 'run':
        run(args)
    elif args.cmd == 'show':
        show(args)
    else:
        report(all_results())


if __name__ == '__main__':
    main()
