#!/usr/bin/env python3
"""Import a sub-agent's output directory (/tmp/out-CNN with patch<i>.diff, demo<i>.py, notes<i>.md) into
/verif/seeded/CNN-<i>/ after confirming, in a scratch worktree, that (a) the repository's tests pass with the patch,
(b) the demo passes on the clean tree, (c) the demo fails with the patch.  Usage: import_seeded.py CNN [CNN ...]"""
import json
import os
import shutil
import subprocess
import sys
from pathlib import Path

HOME = Path(__file__).resolve().parent.parent
WT = Path('/tmp/selftest-wt')


def sh(cmd, **kw):
    return subprocess.run(cmd, shell=True, capture_output=True, text=True, **kw)


def main():
    if not (WT / 'wn').is_dir():
        sh('git -C /repo worktree prune')
        sh(f'git -C /repo worktree add --detach {WT} HEAD')
    sh(f'git -C {WT} checkout -q --detach $(git -C /repo rev-parse HEAD); git -C {WT} checkout -- .; git -C {WT} clean -fdq')
    env = dict(os.environ, PYTHONPATH=str(WT))
    args = sys.argv[1:]
    prefix, offset = '/tmp/out-', 0
    if args and args[0].startswith('--round='):
        rnd = int(args.pop(0).split('=')[1])
        prefix, offset = f'/tmp/out{rnd}-', 2 * (rnd - 1)
    area_root = None
    if args and args[0].startswith('--area='):
        # area rounds: <root>/<Area>/{patch,demo,notes}<i>; the property comes from the first line of the notes
        area_root = Path(args.pop(0).split('=', 1)[1])
    for pid in args:
        src = Path(f'{prefix}{pid}') if area_root is None else area_root / pid
        for i in (1, 2, 3, 4):
            patch, demo, notes = src / f'patch{i}.diff', src / f'demo{i}.py', src / f'notes{i}.md'
            if not patch.exists() or not demo.exists():
                continue
            name = f'{pid}-{i + offset}'
            area = None
            if area_root is not None:
                first = notes.read_text().splitlines()[0] if notes.exists() else ''
                if not first.startswith('PROPERTY: C'):
                    print(pid, i, 'REJECTED: notes do not name a property')
                    continue
                area, pid_ = pid, first.split()[1][:3]
                name = f'{pid_}-{area}{i}'
            sh(f'git -C {WT} checkout -- .; git -C {WT} clean -fdq')
            clean = subprocess.run(['/venv/bin/python', str(demo)], env=env, capture_output=True, text=True, cwd=str(src), timeout=900)
            a = sh(f'git -C {WT} apply {patch}')
            if a.returncode:
                print(name, 'REJECTED: patch does not apply', a.stderr[-200:])
                continue
            tests = sh(f'cd {WT} && /venv/bin/python -m pytest -q -p no:cacheprovider tests bench 2>&1 | tail -1', env=env)
            broken = subprocess.run(['/venv/bin/python', str(demo)], env=env, capture_output=True, text=True, cwd=str(src), timeout=900)
            sh(f'git -C {WT} checkout -- .; git -C {WT} clean -fdq')
            ok = clean.returncode == 0 and broken.returncode != 0 and ' passed' in tests.stdout and 'failed' not in tests.stdout
            print(name, 'confirmed' if ok else 'REJECTED', '| clean demo rc', clean.returncode, '| patched demo rc', broken.returncode, '|', tests.stdout.strip()[-60:])
            if not ok:
                continue
            dest = HOME / 'seeded' / name
            dest.mkdir(parents=True, exist_ok=True)
            shutil.copy(patch, dest / 'patch.diff')
            shutil.copy(demo, dest / 'demo.py')
            text = notes.read_text() if notes.exists() else ''
            shutil.copy(notes, dest / 'notes.md') if notes.exists() else None
            meta = {
                'property': pid if area is None else pid_,
                'source': ('independent sub-agent given only the property text and a scratch worktree' if area is None else
                           f'independent sub-agent given the 20 property statements, one theme ({area}) and a scratch worktree'),
                'needs': ' '.join(text.split())[:600],
                'confirmed': {
                    'repo_tests_with_patch': tests.stdout.strip()[-60:],
                    'demo_on_clean_tree_rc': clean.returncode,
                    'demo_with_patch_rc': broken.returncode,
                    'how': f'scratch worktree of /repo at {sh("git -C /repo rev-parse --short HEAD").stdout.strip()}: git apply patch.diff; '
                           'PYTHONPATH=<worktree> /venv/bin/python -m pytest tests bench; PYTHONPATH=<worktree> /venv/bin/python demo.py (clean and patched)',
                },
            }
            (dest / 'meta.json').write_text(json.dumps(meta, indent=1) + '\n')


if __name__ == '__main__':
    main()
