#!/usr/bin/env python3
"""Kill matrix of the seeded changes in /verif/seeded/<name>/ (patch.diff, demo.py, meta.json).

For each seeded change: apply it to a scratch worktree of /repo (never to /repo itself), confirm that the repository's own
tests still pass and that the demonstration fails, run the owning property's check (and optionally every check) with
VERIF_REPO pointing at the scratch tree, record which checks raise VIOLATION, and reset the tree.

    selftest/run_seeded.py [--all-checks] [--tier quick] [name ...]
Writes selftest/RESULTS.md and selftest/results.json.
"""
import argparse
import json
import os
import subprocess
import sys
import time
from pathlib import Path

HOME = Path(__file__).resolve().parent.parent
SEEDED = HOME / 'seeded'
WT = Path(os.environ.get('SELFTEST_WORKTREE', '/tmp/selftest-wt'))
PROPS = [f'C{i:02}' for i in range(1, 21)]


def sh(cmd, **kw):
    return subprocess.run(cmd, shell=isinstance(cmd, str), capture_output=True, text=True, **kw)


def ensure_worktree():
    if not (WT / 'wn').is_dir():
        sh(f'git -C /repo worktree prune')
        r = sh(f'git -C /repo worktree add --detach {WT} HEAD')
        if r.returncode:
            sys.exit('cannot create worktree: ' + r.stderr)
    sh(f'git -C {WT} checkout -q --detach $(git -C /repo rev-parse HEAD)')
    sh(f'git -C {WT} checkout -- . && git -C {WT} clean -fdq')


def run_check(pid, tier, env):
    t0 = time.time()
    r = sh([str(HOME / 'check'), pid, '--tier', tier], env=env, cwd=str(HOME))
    keys = sorted({l.split(' key=', 1)[1].split(' count=')[0] for l in r.stdout.splitlines() if l.startswith('VIOLATION') and ' key=' in l})
    return {'rc': r.returncode, 'keys': keys, 'wall': round(time.time() - t0, 1),
            'inconclusive': [l[:200] for l in r.stdout.splitlines() if l.startswith('INCONCLUSIVE')][:2]}


def main():
    ap = argparse.ArgumentParser()
    ap.add_argument('names', nargs='*')
    ap.add_argument('--all-checks', action='store_true')
    ap.add_argument('--tier', default='quick')
    ap.add_argument('--skip-tests', action='store_true')
    args = ap.parse_args()
    names = args.names or sorted(p.name for p in SEEDED.iterdir() if (p / 'patch.diff').exists())
    ensure_worktree()
    results = {}
    old = {}
    rj = HOME / 'selftest' / 'results.json'
    if rj.exists():
        old = json.loads(rj.read_text())
    for name in names:
        d = SEEDED / name
        meta = json.loads((d / 'meta.json').read_text())
        sh(f'git -C {WT} checkout -- . && git -C {WT} clean -fdq')
        r = sh(f'git -C {WT} apply {d / "patch.diff"}')
        if r.returncode:
            results[name] = {'error': 'patch does not apply: ' + r.stderr[-300:], 'property': meta['property']}
            print(name, 'PATCH DOES NOT APPLY')
            continue
        env = dict(os.environ, VERIF_REPO=str(WT), VERIF_REPLAYS=str(HOME / '.scratch' / 'replays'), PYTHONPATH=str(WT))
        res = {'property': meta['property'], 'needs': meta.get('needs', '')}
        if not args.skip_tests:
            t = sh(f'cd {WT} && /venv/bin/python -m pytest -q -x -p no:cacheprovider tests 2>&1 | tail -1', env=env)
            res['tests'] = t.stdout.strip()[-80:]
        dm = sh(['/venv/bin/python', str(d / 'demo.py')], env=env, cwd=str(d), timeout=600)
        res['demo_fails_with_patch'] = dm.returncode != 0
        env2 = dict(env)
        env2.pop('PYTHONPATH')
        checks = PROPS if args.all_checks else [meta['property']]
        res['checks'] = {}
        for pid in checks:
            res['checks'][pid] = run_check(pid, args.tier, env2)
        res['caught_by'] = [p for p, c in res['checks'].items() if c['rc'] == 1]
        res['caught_by_owner'] = meta['property'] in res['caught_by']
        results[name] = res
        print(name, 'owner', meta['property'], 'caught' if res['caught_by_owner'] else 'MISSED', res['checks'][meta['property']]['keys'][:3],
              'also:', [p for p in res['caught_by'] if p != meta['property']], flush=True)
        sh(f'git -C {WT} checkout -- . && git -C {WT} clean -fdq')
    old.update(results)
    rj.write_text(json.dumps(old, indent=1) + '\n')
    lines = ['# Kill matrix of the seeded changes', '',
             'Produced by `selftest/run_seeded.py` (scratch worktree of /repo HEAD + patch, checks run with VERIF_REPO pointing at it).', '',
             '| seeded change | property | needs | repo tests | demo fails | caught by owner check (keys) | other checks that fire |',
             '|---|---|---|---|---|---|---|']
    for name in sorted(old):
        r_ = old[name]
        if 'error' in r_:
            lines.append(f'| {name} | {r_["property"]} | | | | ERROR {r_["error"][:60]} | |')
            continue
        own = r_['checks'].get(r_['property'], {})
        lines.append(f'| {name} | {r_["property"]} | {r_.get("needs", "")[:90]} | {r_.get("tests", "")} | {r_["demo_fails_with_patch"]} | '
                     f'{"YES" if r_["caught_by_owner"] else "no"} {", ".join(own.get("keys", [])[:3])} | '
                     f'{", ".join(p for p in r_["caught_by"] if p != r_["property"])} |')
    (HOME / 'selftest' / 'RESULTS.md').write_text('\n'.join(lines) + '\n')


if __name__ == '__main__':
    main()
