#!/bin/sh
# Offline setup: install icontract (+deal, asttokens) beside the harness, into /verif/.deps.
# Idempotent.  ./check calls this itself when .deps is missing.
set -e
cd "$(dirname "$0")"
if [ ! -d .deps/icontract ]; then
    mkdir -p .deps
    PIP_NO_INDEX=1 /venv/bin/pip install --quiet --no-index --find-links /opt/veriftools/wheels \
        --target .deps icontract deal >/dev/null 2>&1 || \
    PIP_NO_INDEX=1 /venv/bin/pip install --quiet --no-index --find-links /opt/veriftools/wheels \
        --target .deps icontract
fi
/venv/bin/python -c "import sys; sys.path.insert(0, '.deps'); import icontract" 
echo "setup ok"
